package main

import (
	"fmt"
	"math"
	"sort"
	"strings"

	"github.com/apache/yunikorn-core/pkg/common/resources"
	"github.com/apache/yunikorn-core/pkg/common/security"
	"github.com/apache/yunikorn-core/pkg/scheduler/objects"
	siCommon "github.com/apache/yunikorn-scheduler-interface/lib/go/common"
	"github.com/apache/yunikorn-scheduler-interface/lib/go/si"
)

// ---- engine "sort", node histories: baseNodeCollection driven through the exported interface,
// cached scores / tree content read through the verif hook ----

type SortKV struct {
	ID  int    `json:"id"`
	Key uint64 `json:"key"`
}
type SortNodeOp struct {
	Op     string  `json:"op"` // add remove alloc tryalloc release fadd fupd cap occ updalloc sched reserve unreserve replace policy
	Node   int     `json:"node,omitempty"`
	Res    sortRes `json:"res,omitempty"`
	Key    int     `json:"key,omitempty"`
	Policy int     `json:"policy,omitempty"`
	Flag   bool    `json:"flag,omitempty"`
	// observations
	Kind     string   `json:"kind,omitempty"`     // the code path the node method took (nkind of the model)
	Scores   []uint64 `json:"scores,omitempty"`   // score of the touched node under every policy, after the op
	Reserved bool     `json:"reserved,omitempty"` // IsReserved of the touched node after the op
	Full     []int    `json:"full"`
	Unres    []int    `json:"unres"`
	Cached   []SortKV `json:"cached"`
	Tree     []SortKV `json:"tree"`
	Current  []SortKV `json:"current"`
	ResSet   []int    `json:"resset"`
	Cap      sortRes  `json:"cap,omitempty"`   // capacity / available of the touched node after the op
	Avail    sortRes  `json:"avail,omitempty"`
	Touched  bool     `json:"touched,omitempty"`
	NaN      bool     `json:"nan,omitempty"`
}
type SortNodeCase struct {
	Policy int          `json:"policy"`
	Ops    []SortNodeOp `json:"ops"`
}

// the policies a history can switch between (index = model policy number)
type sortPolicyDef struct {
	typ     string
	weights map[string]float64
}

var sortPolicies = []sortPolicyDef{
	{"fair", nil},
	{"binpacking", nil},
	{"fair", map[string]float64{"vcore": 3, "memory": 1}},
	{"binpacking", map[string]float64{"memory": 1, "gpu": 2}},
	{"nil", nil},              // SetNodeSortingPolicy(nil): every score is 0
	{"undefined-policy", nil}, // NewNodeSortingPolicy falls back to fairness for an unknown name
}

// order-preserving image of a float64 (NaN reported separately)
func sortScoreKey(f float64) (uint64, bool) {
	if f != f {
		return 0, true
	}
	if f == 0 {
		f = 0 // -0 and +0 compare equal
	}
	b := math.Float64bits(f)
	if b>>63 == 1 {
		return ^b, false
	}
	return b | (1 << 63), false
}

func sortNodeName(id int) string { return fmt.Sprintf("node-%03d", id) }
func sortNodeNum(name string) int {
	var id int
	if _, err := fmt.Sscanf(name, "node-%d", &id); err != nil {
		panic(err)
	}
	return id
}

type sortNodeWorld struct {
	nc       objects.NodeCollection
	pols     []objects.NodeSortingPolicy
	nodes    map[int]*objects.Node
	allocs   map[int]*objects.Allocation // by key number
	app      *objects.Application
	reserved map[int]map[int]*objects.Allocation // node -> key -> ask
}

func newSortNodeWorld(policy int) *sortNodeWorld {
	w := &sortNodeWorld{nc: objects.NewNodeCollection("default"), nodes: map[int]*objects.Node{}, allocs: map[int]*objects.Allocation{},
		reserved: map[int]map[int]*objects.Allocation{}}
	for _, p := range sortPolicies {
		if p.typ == "nil" {
			w.pols = append(w.pols, nil)
			continue
		}
		w.pols = append(w.pols, objects.NewNodeSortingPolicy(p.typ, p.weights))
	}
	w.nc.SetNodeSortingPolicy(w.pols[policy])
	w.app = objects.NewApplication(&si.AddApplicationRequest{ApplicationID: "app-1", QueueName: "root.q", PartitionName: "default"},
		security.UserGroup{User: "verif", Groups: []string{"verif"}}, nil, "")
	return w
}

func (w *sortNodeWorld) scores(n *objects.Node) ([]uint64, bool) {
	out := make([]uint64, len(w.pols))
	nan := false
	for i, p := range w.pols {
		f := float64(0)
		if p != nil {
			f = p.ScoreNode(n)
		}
		k, bad := sortScoreKey(f)
		nan = nan || bad
		out[i] = k
	}
	return out, nan
}

func sortAlloc(key int, node int, r sortRes, foreign bool) *objects.Allocation {
	a := &si.Allocation{AllocationKey: fmt.Sprintf("alloc-%d", key), ApplicationID: "app-1", PartitionName: "default",
		ResourcePerAlloc: sortToRes(r).ToProto(), NodeID: sortNodeName(node)}
	if foreign {
		a.AllocationTags = map[string]string{siCommon.Foreign: siCommon.AllocTypeDefault}
	}
	return objects.NewAllocationFromSI(a)
}

func sortAsk(key int, r sortRes) *objects.Allocation {
	return objects.NewAllocationFromSI(&si.Allocation{AllocationKey: fmt.Sprintf("alloc-%d", key), ApplicationID: "app-1", PartitionName: "default",
		ResourcePerAlloc: sortToRes(r).ToProto()})
}

func (w *sortNodeWorld) observe(op *SortNodeOp) {
	op.Full, op.Unres, op.Cached, op.Tree, op.Current, op.ResSet = []int{}, []int{}, []SortKV{}, []SortKV{}, []SortKV{}, []int{}
	w.nc.GetFullNodeIterator().ForEachNode(func(n *objects.Node) bool {
		op.Full = append(op.Full, sortNodeNum(n.NodeID))
		return true
	})
	w.nc.GetNodeIterator().ForEachNode(func(n *objects.Node) bool {
		op.Unres = append(op.Unres, sortNodeNum(n.NodeID))
		return true
	})
	for id, f := range objects.VerifSortCached(w.nc) {
		k, bad := sortScoreKey(f)
		op.NaN = op.NaN || bad
		op.Cached = append(op.Cached, SortKV{sortNodeNum(id), k})
	}
	sort.Slice(op.Cached, func(i, j int) bool { return op.Cached[i].ID < op.Cached[j].ID })
	for _, r := range objects.VerifSortTree(w.nc) {
		k, bad := sortScoreKey(r.Score)
		op.NaN = op.NaN || bad
		op.Tree = append(op.Tree, SortKV{sortNodeNum(r.NodeID), k})
	}
	for _, n := range w.nc.GetNodes() {
		k, bad := sortScoreKey(objects.VerifSortScore(w.nc, n))
		op.NaN = op.NaN || bad
		op.Current = append(op.Current, SortKV{sortNodeNum(n.NodeID), k})
		if n.IsReserved() {
			op.ResSet = append(op.ResSet, sortNodeNum(n.NodeID))
		}
	}
	sort.Slice(op.Current, func(i, j int) bool { return op.Current[i].ID < op.Current[j].ID })
	sort.Ints(op.ResSet)
}

func runSortNodeCase(c *SortNodeCase) {
	w := newSortNodeWorld(c.Policy)
	for i := range c.Ops {
		op := &c.Ops[i]
		op.Kind, op.Scores, op.Reserved, op.NaN = "", nil, false, false
		op.Cap, op.Avail, op.Touched = nil, nil, false
		n := w.nodes[op.Node]
		switch op.Op {
		case "add":
			if n == nil {
				n = objects.NewNode(&si.NodeInfo{NodeID: sortNodeName(op.Node), SchedulableResource: sortToRes(op.Res).ToProto()})
				w.nodes[op.Node] = n
			}
			_ = w.nc.AddNode(n) //nolint:errcheck
		case "remove":
			w.nc.RemoveNode(sortNodeName(op.Node))
		case "policy":
			w.nc.SetNodeSortingPolicy(w.pols[op.Policy])
		default:
			if n == nil {
				op.Kind = "skip"
				break
			}
			op.Kind = w.nodeOp(n, op)
		}
		if n != nil && op.Op != "remove" && op.Op != "policy" {
			var nan bool
			op.Scores, nan = w.scores(n)
			op.NaN = op.NaN || nan
			op.Reserved = n.IsReserved()
			op.Cap, op.Avail, op.Touched = sortFromRes(n.GetCapacity()), sortFromRes(n.GetAvailableResource()), true
		}
		w.observe(op)
	}
}

// nodeOp calls the Node method and reports which path it took
func (w *sortNodeWorld) nodeOp(n *objects.Node, op *SortNodeOp) string {
	switch op.Op {
	case "alloc":
		a := sortAlloc(op.Key, op.Node, op.Res, false)
		w.allocs[op.Key] = a
		n.AddAllocation(a)
		return "KAlloc"
	case "tryalloc":
		a := sortAlloc(op.Key, op.Node, op.Res, false)
		if n.TryAddAllocation(a) {
			w.allocs[op.Key] = a
			return "KAlloc"
		}
		return "KAllocFail"
	case "release":
		a := n.RemoveAllocation(fmt.Sprintf("alloc-%d", op.Key))
		switch {
		case a == nil:
			return "KReleaseMissing"
		case a.IsForeign():
			return "KForeignRemove"
		default:
			return "KRelease"
		}
	case "fadd":
		a := sortAlloc(op.Key, op.Node, op.Res, true)
		w.allocs[op.Key] = a
		n.AddAllocation(a)
		return "KForeignAdd"
	case "fupd":
		if n.GetAllocation(fmt.Sprintf("alloc-%d", op.Key)) == nil {
			return "KNoop" // not called: the method would register the unknown allocation
		}
		a := sortAlloc(op.Key, op.Node, op.Res, true)
		if n.UpdateForeignAllocation(a) == nil {
			return "KNoop"
		}
		return "KForeignUpdate"
	case "cap":
		if n.SetCapacity(sortToRes(op.Res)) == nil {
			return "KSetCapacitySame"
		}
		return "KSetCapacity"
	case "occ":
		n.SetOccupiedResource(sortToRes(op.Res))
		return "KSetOccupied"
	case "updalloc":
		n.UpdateAllocatedResource(sortToRes(op.Res))
		return "KUpdateAllocated"
	case "sched":
		n.SetSchedulable(op.Flag)
		return "KSetSchedulable"
	case "reserve":
		ask := sortAsk(op.Key, op.Res)
		if err := n.Reserve(w.app, ask); err != nil {
			return "KNoop"
		}
		if w.reserved[op.Node] == nil {
			w.reserved[op.Node] = map[int]*objects.Allocation{}
		}
		w.reserved[op.Node][op.Key] = ask
		return "KReserve"
	case "unreserve":
		ask := w.reserved[op.Node][op.Key]
		if objects.VerifSortUnreserve(n, ask) == 0 {
			return "KNoop"
		}
		delete(w.reserved[op.Node], op.Key)
		return "KUnreserve"
	case "replace":
		old := n.GetAllocation(fmt.Sprintf("alloc-%d", op.Key))
		if old == nil || old.IsForeign() {
			return "KNoop"
		}
		repl := sortAlloc(op.Key+5000, op.Node, op.Res, false)
		delta := resources.Sub(repl.GetAllocatedResource(), old.GetAllocatedResource())
		n.ReplaceAllocation(fmt.Sprintf("alloc-%d", op.Key), repl, delta)
		return "KReplace"
	}
	panic("unknown node op " + op.Op)
}

// ---------------------------------------------------------------- generator

func genSortNodeCase(rng *Rng, maxOps int) SortNodeCase {
	c := SortNodeCase{Policy: rng.Intn(len(sortPolicies))}
	nops := 4 + rng.Intn(maxOps)
	known := []int{}                // node ids ever created
	keys := map[int][]int{}         // node -> allocation keys handed out
	nextKey := 1
	caps := []sortRes{{"vcore": 100, "memory": 100}, {"vcore": 100, "memory": 100}, {"vcore": 200, "memory": 100}, {"vcore": 100, "memory": 1000, "gpu": 4}, {"vcore": 10}, {"memory": 64}}
	small := []sortRes{{"vcore": 10}, {"vcore": 10, "memory": 10}, {"memory": 50}, {"vcore": 50, "memory": 50}, {"vcore": 25, "memory": 5}, {"gpu": 1}, {"vcore": 1}, {"vcore": 100}}
	foreignBias := rng.Intn(3) // 0: no foreign/in-place ops (the history stays inside the proved window)
	for i := 0; i < nops; i++ {
		if len(known) == 0 || rng.Chance(sortPickInt(len(known) < 3, 45, 8)) {
			id := 1 + rng.Intn(9)
			c.Ops = append(c.Ops, SortNodeOp{Op: "add", Node: id, Res: sortCopyRes(sortPick(rng, caps))})
			found := false
			for _, k := range known {
				found = found || k == id
			}
			if !found {
				known = append(known, id)
			}
			continue
		}
		id := sortPick(rng, known)
		pickKey := func() int {
			if len(keys[id]) == 0 || rng.Chance(8) {
				return 700 + rng.Intn(3)
			}
			return sortPick(rng, keys[id])
		}
		newKey := func() int {
			k := nextKey
			nextKey++
			keys[id] = append(keys[id], k)
			return k
		}
		x := rng.Intn(100)
		switch {
		case x < 6:
			c.Ops = append(c.Ops, SortNodeOp{Op: "remove", Node: id})
		case x < 12:
			c.Ops = append(c.Ops, SortNodeOp{Op: "policy", Policy: rng.Intn(len(sortPolicies))})
		case x < 30:
			c.Ops = append(c.Ops, SortNodeOp{Op: sortPick(rng, []string{"alloc", "tryalloc", "tryalloc"}), Node: id, Key: newKey(), Res: sortCopyRes(sortPick(rng, small))})
		case x < 42:
			c.Ops = append(c.Ops, SortNodeOp{Op: "release", Node: id, Key: pickKey()})
		case x < 50:
			c.Ops = append(c.Ops, SortNodeOp{Op: "cap", Node: id, Res: sortCopyRes(sortPick(rng, caps))})
		case x < 55:
			c.Ops = append(c.Ops, SortNodeOp{Op: "occ", Node: id, Res: sortCopyRes(sortPick(rng, small))})
		case x < 60:
			c.Ops = append(c.Ops, SortNodeOp{Op: "sched", Node: id, Flag: rng.Bool()})
		case x < 70:
			c.Ops = append(c.Ops, SortNodeOp{Op: "reserve", Node: id, Key: newKey(), Res: sortCopyRes(sortPick(rng, small))})
		case x < 78:
			c.Ops = append(c.Ops, SortNodeOp{Op: "unreserve", Node: id, Key: pickKey()})
		case x < 83:
			c.Ops = append(c.Ops, SortNodeOp{Op: "replace", Node: id, Key: pickKey(), Res: sortCopyRes(sortPick(rng, small))})
		default:
			if foreignBias == 0 {
				c.Ops = append(c.Ops, SortNodeOp{Op: "tryalloc", Node: id, Key: newKey(), Res: sortCopyRes(sortPick(rng, small))})
				continue
			}
			switch rng.Intn(3) {
			case 0:
				c.Ops = append(c.Ops, SortNodeOp{Op: "fadd", Node: id, Key: newKey(), Res: sortCopyRes(sortPick(rng, small))})
			case 1:
				c.Ops = append(c.Ops, SortNodeOp{Op: "fupd", Node: id, Key: pickKey(), Res: sortCopyRes(sortPick(rng, small))})
			default:
				c.Ops = append(c.Ops, SortNodeOp{Op: "updalloc", Node: id, Res: sortPick(rng, []sortRes{{"vcore": 5}, {"vcore": -5}, {"memory": 10}})})
			}
		}
	}
	return c
}

// ---------------------------------------------------------------- Gallina terms

func sortCoqKVs(l []SortKV, keyFirst bool) string {
	items := make([]string, len(l))
	for i, e := range l {
		if keyFirst {
			items[i] = fmt.Sprintf("(%d%%Z, %d%%N)", e.Key, e.ID)
		} else {
			items[i] = fmt.Sprintf("(%d%%N, %d%%Z)", e.ID, e.Key)
		}
	}
	return "[" + strings.Join(items, "; ") + "]"
}

func sortCoqScores(s []uint64) string {
	items := make([]string, len(s))
	for i, v := range s {
		items[i] = fmt.Sprintf("%d", v)
	}
	return "[" + strings.Join(items, ";") + "]%Z"
}

func (c *SortNodeCase) coq() string {
	items := []string{}
	for _, op := range c.Ops {
		var o string
		switch {
		case op.Op == "add":
			o = fmt.Sprintf("OAdd %d (mkNode %s %s)", op.Node, sortCoqScores(op.Scores), coqBool(op.Reserved))
		case op.Op == "remove":
			o = fmt.Sprintf("ORemove %d", op.Node)
		case op.Op == "policy":
			o = fmt.Sprintf("OPolicy %d", op.Policy)
		case op.Kind == "skip":
			o = fmt.Sprintf("ONode %d KNoop [] false", op.Node)
		default:
			o = fmt.Sprintf("ONode %d %s %s %s", op.Node, op.Kind, sortCoqScores(op.Scores), coqBool(op.Reserved))
		}
		obs := fmt.Sprintf("mkObs %s %s %s %s %s %s %s %s %s", sortCoqIDs(op.Full), sortCoqIDs(op.Unres), sortCoqKVs(op.Cached, false),
			sortCoqKVs(op.Tree, true), sortCoqKVs(op.Current, false), sortCoqIDs(op.ResSet), sortCoqRes(op.Cap), sortCoqRes(op.Avail), coqBool(op.Touched))
		items = append(items, "("+o+", "+obs+")")
	}
	return fmt.Sprintf("(%d%%nat, %s)", c.Policy, "[\n    "+strings.Join(items, ";\n    ")+"]")
}

// the policy table as a Gallina term (weights are small integers)
func sortCoqPolicies() string {
	items := make([]string, len(sortPolicies))
	for i, p := range sortPolicies {
		kind := 0 // fairness, also for names SortingPolicyFromString does not know
		switch p.typ {
		case "binpacking":
			kind = 1
		case "nil":
			kind = 2
		}
		ws := []string{}
		for _, name := range sortResNames {
			if w, ok := p.weights[name]; ok {
				ws = append(ws, fmt.Sprintf("(%d%%N, %s)", sortTid(name), coqZ(int64(w))))
			}
		}
		items[i] = fmt.Sprintf("mkPol %d%%N [%s]", kind, strings.Join(ws, "; "))
	}
	return "[" + strings.Join(items, "; ") + "]"
}

func (c *SortNodeCase) hasNaN() bool {
	for _, op := range c.Ops {
		if op.NaN {
			return true
		}
	}
	return false
}
