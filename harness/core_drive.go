package main

import (
	"fmt"
	"runtime/debug"
	"hash/fnv"
	"math"
	"sort"
	"strconv"
	"sync"
	"time"

	"github.com/apache/yunikorn-core/pkg/common/resources"
	"github.com/apache/yunikorn-core/pkg/events"
	"github.com/apache/yunikorn-core/pkg/plugins"
	"github.com/apache/yunikorn-core/pkg/rmproxy/rmevent"
	"github.com/apache/yunikorn-core/pkg/scheduler"
	"github.com/apache/yunikorn-core/pkg/scheduler/objects"
	"github.com/apache/yunikorn-core/pkg/scheduler/ugm"
	"github.com/apache/yunikorn-core/pkg/webservice/dao"
	siCommon "github.com/apache/yunikorn-scheduler-interface/lib/go/common"
	"github.com/apache/yunikorn-scheduler-interface/lib/go/si"
)

const coreRM = "rm-1"
const corePartition = "[rm-1]default"

// ---- mock shim: records everything the core sends, answers synchronous events ----
type coreShim struct {
	sync.Mutex
	events   []CoreEvent
	preds    []PredCall
	predDeny int
	seed     uint64
	world    *CoreWorld
}

func (s *coreShim) predOK(key, node string) bool {
	if s.world != nil {
		for _, p := range s.world.DenyPairs {
			if p[0] == key && p[1] == node {
				return false
			}
		}
	}
	return corePredOK(s.seed, s.predDeny, key, node)
}

func (s *coreShim) HandleEvent(ev interface{}) {
	s.Lock()
	defer s.Unlock()
	switch e := ev.(type) {
	case *rmevent.RMNewAllocationsEvent:
		for _, a := range e.Allocations {
			s.events = append(s.events, CoreEvent{Kind: "newalloc", Key: a.AllocationKey, App: a.ApplicationID, Node: a.NodeID,
				Res: resFromProto(a.ResourcePerAlloc), Ph: a.Placeholder})
		}
		if e.Channel != nil {
			go func(c chan *rmevent.Result) { c <- &rmevent.Result{Succeeded: true} }(e.Channel)
		}
	case *rmevent.RMReleaseAllocationEvent:
		for _, r := range e.ReleasedAllocations {
			s.events = append(s.events, CoreEvent{Kind: "release", Key: r.AllocationKey, App: r.ApplicationID, TType: int32(r.TerminationType)})
		}
		if e.Channel != nil {
			go func(c chan *rmevent.Result) { c <- &rmevent.Result{Succeeded: true} }(e.Channel)
		}
	case *rmevent.RMApplicationUpdateEvent:
		for _, a := range e.AcceptedApplications {
			s.events = append(s.events, CoreEvent{Kind: "appaccepted", App: a.ApplicationID})
		}
		for _, a := range e.RejectedApplications {
			s.events = append(s.events, CoreEvent{Kind: "apprejected", App: a.ApplicationID})
		}
		for _, a := range e.UpdatedApplications {
			s.events = append(s.events, CoreEvent{Kind: "appupdated", App: a.ApplicationID, State: a.State})
		}
	case *rmevent.RMNodeUpdateEvent:
		for _, n := range e.AcceptedNodes {
			s.events = append(s.events, CoreEvent{Kind: "nodeaccepted", Node: n.NodeID})
		}
		for _, n := range e.RejectedNodes {
			s.events = append(s.events, CoreEvent{Kind: "noderejected", Node: n.NodeID})
		}
	case *rmevent.RMRejectedAllocationEvent:
		for _, a := range e.RejectedAllocations {
			s.events = append(s.events, CoreEvent{Kind: "allocrejected", Key: a.AllocationKey, App: a.ApplicationID})
		}
	}
}

func (s *coreShim) take() ([]CoreEvent, []PredCall) {
	s.Lock()
	defer s.Unlock()
	e, p := s.events, s.preds
	s.events, s.preds = nil, nil
	return e, p
}

// predicate plugin: a deterministic table over (allocation key, node)
func corePredOK(seed uint64, deny int, key, node string) bool {
	if deny <= 0 {
		return true
	}
	h := fnv.New64a()
	_, _ = h.Write([]byte(fmt.Sprintf("%d|%s|%s", seed, key, node)))
	return int(h.Sum64()%100) >= deny
}

func (s *coreShim) UpdateAllocation(*si.AllocationResponse) error   { return nil }
func (s *coreShim) UpdateApplication(*si.ApplicationResponse) error { return nil }
func (s *coreShim) UpdateNode(*si.NodeResponse) error               { return nil }
func (s *coreShim) Predicates(args *si.PredicatesArgs) error {
	ok := s.predOK(args.AllocationKey, args.NodeID)
	s.Lock()
	s.preds = append(s.preds, PredCall{Key: args.AllocationKey, Node: args.NodeID, Allocate: args.Allocate, OK: ok})
	s.Unlock()
	if !ok {
		return fmt.Errorf("predicate denied")
	}
	return nil
}
func (s *coreShim) PreemptionPredicates(args *si.PreemptionPredicatesArgs) *si.PreemptionPredicatesResponse {
	// all victims needed: success with the last index
	return &si.PreemptionPredicatesResponse{Success: s.predOK(args.AllocationKey, args.NodeID), Index: int32(len(args.PreemptAllocationKeys)) - 1}
}
func (s *coreShim) SendEvent([]*si.EventRecord)                                           {}
func (s *coreShim) UpdateContainerSchedulingState(*si.UpdateContainerSchedulingStateRequest) {}

// ---- conversions ----
func resFromProto(r *si.Resource) CoreRes {
	if r == nil {
		return nil
	}
	out := CoreRes{}
	for k, v := range r.Resources {
		out[k] = v.Value
	}
	return out
}
func resToProto(r CoreRes) *si.Resource {
	if r == nil {
		return nil
	}
	out := &si.Resource{Resources: map[string]*si.Quantity{}}
	for k, v := range r {
		out.Resources[k] = &si.Quantity{Value: v}
	}
	return out
}
func resFromCore(r *resources.Resource) (CoreRes, bool) {
	if r == nil {
		return nil, true
	}
	out := CoreRes{}
	for k, v := range r.Resources {
		out[k] = int64(v)
	}
	return out, false
}
func resC(r *resources.Resource) CoreRes { c, _ := resFromCore(r); return c }
func resFromDAO(m map[string]int64) CoreRes {
	out := CoreRes{}
	for k, v := range m {
		out[k] = v
	}
	return out
}

// ---- the driver ----
type coreDriver struct {
	core  *scheduler.VerifCore
	shim  *coreShim
	world *CoreWorld
	start time.Time
}

var coreInitOnce sync.Once
var coreTracePanics bool

func newCoreDriver(w *CoreWorld) (*coreDriver, error) {
	coreInitOnce.Do(func() {
		events.Init() // event system exists but is not started: events are dropped
	})
	// timers never fire on their own: the harness fires them explicitly
	resWait := 60 * time.Minute
	if w.ResWaitOn {
		resWait = time.Nanosecond
	}
	objects.VerifCoreSetTimeouts(1000*time.Hour, 1000*time.Hour, 0, resWait)
	if w.ResDelayOn {
		objects.SetReservationDelay(time.Nanosecond)
	} else {
		objects.SetReservationDelay(math.MaxInt64)
	}
	m := ugm.GetUserManager()
	m.ClearUserTrackers()
	m.ClearGroupTrackers()
	m.ClearConfigLimits()
	shim := &coreShim{predDeny: w.PredDeny, seed: w.Seed, world: w}
	plugins.UnregisterSchedulerPlugins()
	plugins.RegisterSchedulerPlugin(shim)
	core, err := scheduler.VerifNewCore(coreRM, "policygroup", []byte(w.Configs[0]), shim)
	if err != nil {
		return nil, err
	}
	return &coreDriver{core: core, shim: shim, world: w, start: time.Now()}, nil
}

func (d *coreDriver) part() *scheduler.PartitionContext { return d.core.Partition(corePartition) }

func (d *coreDriver) partName(op *CoreOp) string {
	if op.Partition != "" {
		return op.Partition
	}
	return corePartition
}

func (d *coreDriver) siAlloc(op *CoreOp) *si.Allocation {
	tags := map[string]string{}
	if op.AgeSec != 0 {
		tags[siCommon.CreationTime] = strconv.FormatInt(d.start.Unix()-op.AgeSec, 10)
	}
	if op.ReqNode != "" {
		tags[siCommon.DomainYuniKorn+siCommon.KeyRequiredNode] = op.ReqNode
	}
	if op.Foreign {
		tags[siCommon.Foreign] = siCommon.AllocTypeDefault
	}
	a := &si.Allocation{
		AllocationKey: op.Key, ApplicationID: op.App, PartitionName: d.partName(op), NodeID: op.Node,
		AllocationTags: tags, Priority: op.Prio, Placeholder: op.Ph, TaskGroupName: op.TaskGroup, Originator: op.Originator,
		PreemptionPolicy: &si.PreemptionPolicy{AllowPreemptSelf: !op.NoPreempt, AllowPreemptOther: op.PreemptOther},
	}
	if !op.NilRes {
		a.ResourcePerAlloc = resToProto(op.Res)
	}
	return a
}

// exec runs one op against the real core.
func (d *coreDriver) exec(op *CoreOp) (isErr bool) {
	switch op.Kind {
	case "node_add":
		act := si.NodeInfo_CREATE
		if op.Drain {
			act = si.NodeInfo_CREATE_DRAIN
		}
		d.core.Nodes(&si.NodeRequest{RmID: coreRM, Nodes: []*si.NodeInfo{{NodeID: op.Node, Action: act,
			Attributes: map[string]string{siCommon.NodePartition: d.partName(op)}, SchedulableResource: resToProto(op.Cap)}}})
	case "node_update", "node_drain", "node_undrain", "node_remove":
		act := map[string]si.NodeInfo_ActionFromRM{"node_update": si.NodeInfo_UPDATE, "node_drain": si.NodeInfo_DRAIN_NODE,
			"node_undrain": si.NodeInfo_DRAIN_TO_SCHEDULABLE, "node_remove": si.NodeInfo_DECOMISSION}[op.Kind]
		ni := &si.NodeInfo{NodeID: op.Node, Action: act, Attributes: map[string]string{siCommon.NodePartition: d.partName(op)}}
		if op.Kind == "node_update" && !op.NilRes {
			ni.SchedulableResource = resToProto(op.Cap)
		}
		d.core.Nodes(&si.NodeRequest{RmID: coreRM, Nodes: []*si.NodeInfo{ni}})
	case "app_add":
		tags := map[string]string{}
		if op.Forced {
			tags[siCommon.AppTagCreateForce] = "true"
		}
		if op.MaxApps != 0 {
			tags[siCommon.AppTagNamespaceResourceMaxApps] = strconv.FormatUint(op.MaxApps, 10)
		}
		if op.TagMax != nil {
			tags[siCommon.AppTagNamespaceResourceQuota] = coreResJSON(op.TagMax)
		}
		req := &si.AddApplicationRequest{ApplicationID: op.App, QueueName: op.Queue, PartitionName: d.partName(op), Tags: tags,
			PlaceholderAsk: resToProto(op.PhAsk), ExecutionTimeoutMilliSeconds: 3600 * 1000 * 1000}
		if !op.NoUgi {
			req.Ugi = &si.UserGroupInformation{User: op.User, Groups: op.Groups}
		}
		if op.Hard {
			req.GangSchedulingStyle = "Hard"
		} else {
			req.GangSchedulingStyle = "Soft"
		}
		d.core.Apps(&si.ApplicationRequest{RmID: coreRM, New: []*si.AddApplicationRequest{req}})
	case "app_remove":
		d.core.Apps(&si.ApplicationRequest{RmID: coreRM, Remove: []*si.RemoveApplicationRequest{{ApplicationID: op.App, PartitionName: d.partName(op)}}})
	case "alloc":
		d.core.Allocs(&si.AllocationRequest{RmID: coreRM, Allocations: []*si.Allocation{d.siAlloc(op)}})
	case "release":
		d.core.Allocs(&si.AllocationRequest{RmID: coreRM, Releases: &si.AllocationReleasesRequest{AllocationsToRelease: []*si.AllocationRelease{{
			PartitionName: d.partName(op), ApplicationID: op.App, AllocationKey: op.Key, TerminationType: si.TerminationType(op.TType)}}}})
	case "sched":
		d.core.Schedule()
	case "fire_ph":
		if app := d.findApp(op.App); app != nil {
			app.VerifCoreFirePlaceholderTimer()
		}
	case "fire_state":
		if app := d.findApp(op.App); app != nil {
			app.VerifCoreFireStateTimer()
		}
	case "reload":
		if err := d.core.Reload(coreRM, []byte(d.world.Configs[op.Conf])); err != nil {
			return true
		}
	case "clean":
		d.part().VerifCleanQueues()
	}
	return false
}

func (d *coreDriver) findApp(id string) *objects.Application {
	p := d.part()
	if p == nil {
		return nil
	}
	if a := p.GetApplication(id); a != nil {
		return a
	}
	c, r := p.VerifTerminated()
	for _, a := range append(c, r...) {
		if a.ApplicationID == id {
			return a
		}
	}
	return nil
}

// settle waits for the asynchronous terminated-application callback to move applications.
func (d *coreDriver) settle() {
	p := d.part()
	if p == nil {
		return
	}
	for i := 0; i < 20000; i++ {
		busy := false
		for _, a := range p.GetApplications() {
			st := a.CurrentState()
			if st == "Completed" || st == "Failed" {
				busy = true
			}
		}
		if !busy {
			return
		}
		time.Sleep(200 * time.Microsecond)
	}
}

func (d *coreDriver) step(op *CoreOp) CoreStep {
	st := CoreStep{Op: *op}
	func() {
		defer func() {
			if e := recover(); e != nil {
				st.Panic = fmt.Sprint(e)
				if coreTracePanics {
					fmt.Printf("PANIC op=%+v\n%s\n", *op, debug.Stack())
				}
			}
		}()
		st.Err = d.exec(op)
	}()
	d.settle()
	st.Events, st.Preds = d.shim.take()
	st.Obs = d.observe()
	return st
}

// ---- observation ----
func obsAlloc(a *objects.Allocation) ObsAlloc {
	o := ObsAlloc{Key: a.GetAllocationKey(), App: a.GetApplicationID(), Node: a.GetNodeID(), Res: resC(a.GetAllocatedResource()),
		Ph: a.IsPlaceholder(), TaskGroup: a.GetTaskGroup(), Allocated: a.IsAllocated(), Released: a.IsReleased(), Preempted: a.IsPreempted(),
		ReqNode: a.GetRequiredNode(), Prio: a.GetPriority(), Foreign: a.IsForeign(), Originator: a.IsOriginator(),
		PreemptSelf: a.IsAllowPreemptSelf(), PreemptOther: a.IsAllowPreemptOther()}
	if r := a.GetRelease(); r != nil {
		o.Release = r.GetAllocationKey()
	}
	return o
}

func sortAllocs(l []ObsAlloc) { sort.Slice(l, func(i, j int) bool { return l[i].Key < l[j].Key }) }
func sortPairs(l [][2]string) {
	sort.Slice(l, func(i, j int) bool {
		if l[i][0] != l[j][0] {
			return l[i][0] < l[j][0]
		}
		return l[i][1] < l[j][1]
	})
}

func obsApp(a *objects.Application) ObsApp {
	o := ObsApp{ID: a.ApplicationID, Queue: a.GetQueuePath(), State: a.CurrentState(), User: a.GetUser().User, Groups: a.GetUser().Groups}
	p, al, ph, pa, has := a.VerifCoreRaw()
	o.Pending, o.Allocated, o.PhAlloc, o.PhAsk, o.HasPh = resC(p), resC(al), resC(ph), resC(pa), has
	for _, r := range a.GetAllRequests() {
		o.Requests = append(o.Requests, obsAlloc(r))
	}
	sortAllocs(o.Requests)
	for _, r := range a.GetAllAllocations() {
		o.Allocs = append(o.Allocs, obsAlloc(r))
	}
	sortAllocs(o.Allocs)
	o.Reservations = a.VerifCoreReservations()
	sortPairs(o.Reservations)
	for _, pd := range a.GetAllPlaceholderData() {
		o.PhData = append(o.PhData, ObsPh{TaskGroup: pd.TaskGroupName, Count: pd.Count, Replaced: pd.Replaced, TimedOut: pd.TimedOut})
	}
	sort.Slice(o.PhData, func(i, j int) bool { return o.PhData[i].TaskGroup < o.PhData[j].TaskGroup })
	for _, e := range a.GetStateLog() {
		o.StateLog = append(o.StateLog, e.ApplicationState)
	}
	o.PhTimer, o.StateTimer = a.VerifCoreTimers()
	o.Forced = a.IsCreateForced()
	return o
}

func (d *coreDriver) observeQueues(q *objects.Queue, out *[]ObsQueue) {
	info := q.GetPartitionQueueDAOInfo(false)
	o := ObsQueue{Path: info.QueueName, Parent: info.Parent, Leaf: info.IsLeaf, Managed: info.IsManaged, State: info.Status,
		Alloc: resFromDAO(info.AllocatedResource), Pending: resFromDAO(info.PendingResource), Preempting: resFromDAO(info.PreemptingResource),
		Running: info.RunningApps, MaxRunning: info.MaxRunningApps, Allocating: info.AllocatingAcceptedApps, Reserved: q.GetReservedApps()}
	mx, g := q.VerifCoreRaw()
	o.Max, o.MaxNil = resFromCore(mx)
	o.Guaranteed, o.GuarNil = resFromCore(g)
	sort.Strings(o.Allocating)
	for id := range q.GetCopyOfApps() {
		o.Apps = append(o.Apps, id)
	}
	sort.Strings(o.Apps)
	*out = append(*out, o)
	children := q.GetCopyOfChildren()
	names := make([]string, 0, len(children))
	for n := range children {
		names = append(names, n)
	}
	sort.Strings(names)
	for _, n := range names {
		d.observeQueues(children[n], out)
	}
}

func ugmWalk(who string, isGroup bool, q *dao.ResourceUsageDAOInfo, out *[]ObsUgm) {
	if q == nil {
		return
	}
	o := ObsUgm{Who: who, IsGroup: isGroup, Path: q.QueuePath, Usage: resFromDAO(q.ResourceUsage), Max: resFromDAO(q.MaxResources),
		MaxNil: q.MaxResources == nil, MaxApps: q.MaxApplications, Running: append([]string{}, q.RunningApplications...)}
	sort.Strings(o.Running)
	*out = append(*out, o)
	for _, c := range q.Children {
		ugmWalk(who, isGroup, c, out)
	}
}

func (d *coreDriver) observe() *CoreObs {
	o := &CoreObs{}
	p := d.part()
	if p == nil {
		return o
	}
	for _, n := range p.GetNodes() {
		on := ObsNode{ID: n.NodeID, Total: resC(n.GetCapacity()), Occupied: resC(n.GetOccupiedResource()), Allocated: resC(n.GetAllocatedResource()),
			Available: resC(n.GetAvailableResource()), Sched: n.IsSchedulable(), Reservations: n.VerifCoreReservations()}
		for _, a := range n.GetYunikornAllocations() {
			on.Allocs = append(on.Allocs, obsAlloc(a))
		}
		for _, a := range n.GetForeignAllocations() {
			on.Foreign = append(on.Foreign, obsAlloc(a))
		}
		sortAllocs(on.Allocs)
		sortAllocs(on.Foreign)
		sortPairs(on.Reservations)
		o.Nodes = append(o.Nodes, on)
	}
	sort.Slice(o.Nodes, func(i, j int) bool { return o.Nodes[i].ID < o.Nodes[j].ID })
	for _, a := range p.GetApplications() {
		o.Apps = append(o.Apps, obsApp(a))
	}
	sort.Slice(o.Apps, func(i, j int) bool { return o.Apps[i].ID < o.Apps[j].ID })
	d.observeQueues(p.VerifRoot(), &o.Queues)
	o.Total, o.TotalNil = resFromCore(p.GetTotalPartitionResource())
	o.NAllocs, o.NPh, o.NReservations = p.VerifCounters()
	for _, a := range p.VerifForeign() {
		o.Foreign = append(o.Foreign, obsAlloc(a))
	}
	sortAllocs(o.Foreign)
	c, r := p.VerifTerminated()
	for _, a := range c {
		o.Completed = append(o.Completed, obsApp(a))
	}
	sort.Slice(o.Completed, func(i, j int) bool { return o.Completed[i].ID < o.Completed[j].ID })
	for _, a := range r {
		o.Rejected = append(o.Rejected, a.ApplicationID)
	}
	sort.Strings(o.Rejected)
	m := ugm.GetUserManager()
	for _, ut := range m.GetUserTrackers() {
		info := ut.GetResourceUsageDAOInfo()
		ugmWalk(info.UserName, false, info.Queues, &o.Ugm)
	}
	for _, gt := range m.GetGroupTrackers() {
		info := gt.GetResourceUsageDAOInfo()
		ugmWalk(info.GroupName, true, info.Queues, &o.Ugm)
	}
	sort.Slice(o.Ugm, func(i, j int) bool {
		a, b := o.Ugm[i], o.Ugm[j]
		if a.IsGroup != b.IsGroup {
			return !a.IsGroup
		}
		if a.Who != b.Who {
			return a.Who < b.Who
		}
		return a.Path < b.Path
	})
	return o
}

func coreResJSON(r CoreRes) string {
	s := "{\"resources\":{"
	first := true
	for _, k := range sortedKeys(r) {
		if !first {
			s += ","
		}
		first = false
		s += fmt.Sprintf("\"%s\":{\"value\":%d}", k, r[k])
	}
	return s + "}}"
}

// runCoreCase executes the history against a fresh core.
func runCoreCase(c *CoreCase) error {
	d, err := newCoreDriver(&c.World)
	if err != nil {
		return err
	}
	c.Init = d.observe()
	c.Steps = nil
	for i := range c.Ops {
		c.Steps = append(c.Steps, d.step(&c.Ops[i]))
	}
	return nil
}
