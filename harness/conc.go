package main

// ---- engine "conc" (property C14): the scheduler core driven from several goroutines at once ----
//
// The goroutine structure is the one of the real Scheduler service (pkg/scheduler/scheduler.go):
//   rm     application + allocation requests (ONE goroutine in the real service: handleAllocEvent), also the
//          confirmations the mock shim sends back for releases the core asks for
//   node   node requests (handleNodeEvent)
//   infra  configuration reloads (handleInfraEvent)
//   sched  the scheduling loop (internalSchedule)
//   bg     quota preemption trigger, outstanding request inspection, health checker
//   pm     partition manager work: queue cleaning, expired application cleaning
//   timer  placeholder / state timers of applications (fired through the hook, from their own goroutine)
//   rest0, rest1   REST readers: the real router of pkg/webservice served in-process
//   shim   the mock shim's responder (takes no core locks)
// The workload is a generated core history (core_gen.go) split by op kind over these goroutines.
// While it runs the lock wrapper of pkg/locking (build tag verif) traces every lock nesting and yields
// pseudo-randomly. After the input stops and the system settles the final state is observed (core_drive.go).

import (
	"fmt"
	"net/http"
	"net/http/httptest"
	"os"
	"runtime"
	"sort"
	"strings"
	"sync"
	"sync/atomic"
	"time"

	"github.com/apache/yunikorn-core/pkg/events"
	"github.com/apache/yunikorn-core/pkg/locking"
	"github.com/apache/yunikorn-core/pkg/metrics"
	"github.com/apache/yunikorn-core/pkg/scheduler"
	"github.com/apache/yunikorn-core/pkg/scheduler/objects"
	"github.com/apache/yunikorn-core/pkg/scheduler/ugm"
	"github.com/apache/yunikorn-core/pkg/webservice"
)

// ConcCase is the replayable input of one run.
type ConcCase struct {
	World      CoreWorld `json:"world"`
	Ops        []CoreOp  `json:"ops"`        // generated history; split over the goroutines by kind
	YieldSeed  uint64    `json:"yieldseed"`  // 0 = no yields in the lock wrapper
	Mode       string    `json:"mode"`       // "conc" (default) or "seq" (same ops from one goroutine: baseline)
	GoDeadlock bool      `json:"godeadlock"` // run with go-deadlock enabled: lock wait timeout detection only (its pairwise lock-order detection reports the single-goroutine application<->application nesting and is subsumed by the traced relation)
	Calm       bool      `json:"calm"`       // calm workload (see concGen)
	Ledger     bool      `json:"ledger"`     // ledger workload (see concGenLedger): the final state is judged strictly on every ledger
	Trigger    bool      `json:"trigger"`    // the workload contains an operation of the kinds behind the recorded ledger-drift findings (concTrigger)
	// ReleaseAfterAlloc: percentage of announced allocations the mock shim releases again (STOPPED_BY_RM) through the RM goroutine
	ReleaseAfterAlloc int `json:"release_after_alloc,omitempty"`
	// Ugm: first-use workload of the user / group manager (see concGenUgm): the tracked usage is judged strictly
	Ugm bool `json:"ugm,omitempty"`
	// StableUsers: no user tracker can become empty during the run: the workload releases nothing (first use) or every
	// user holds an allocation that is never released (ledger). Only then is the tracked usage judged strictly: on the
	// unchanged tree the release of a user's last allocation racing with an allocation for the same user loses the
	// tracker (known finding C14-ugm-tracker-removed-in-use)
	StableUsers bool `json:"stable_users,omitempty"`
	// Burst: percentage of the RM goroutine's operations that follow their predecessor without a pause
	Burst int `json:"burst,omitempty"`
	// TightKeys: allocation keys whose operation follows its predecessor in the RM goroutine without a pause
	TightKeys []string `json:"tight_keys,omitempty"`
	// UserGroups: the group every application of the user must be tracked under (users not listed: no statement)
	UserGroups map[string]string `json:"user_groups,omitempty"`
	// MaxStrict: queues that receive no unchecked increment in this workload (their usage only grows through the
	// scheduler's limit check): after quiescence their usage must be within their configured maximum
	MaxStrict []string    `json:"max_strict,omitempty"`
	Result    *ConcResult `json:"result,omitempty"`
}

type ConcLock struct {
	ID    int    `json:"id"`
	Label string `json:"label"` // object identity when resolved (queue:root.a, app:app-1, ...), else type#n
	Class string `json:"class"`
}
type ConcEdge struct {
	From      int      `json:"from"`
	To        int      `json:"to"`
	FromLabel string   `json:"from_label"`
	ToLabel   string   `json:"to_label"`
	Class     string   `json:"class"` // class-level edge, e.g. queue.child>queue.parent
	Count     uint64   `json:"count"`
	Modes     string   `json:"modes"` // held R/W/RW > requested R/W/RW
	Roles     []string `json:"roles"`
	Site      []string `json:"site"`      // call stack of the request
	HeldSite  []string `json:"held_site"` // call stack of the acquisition of the held lock
}
type ConcReentry struct {
	Label string   `json:"label"`
	Count uint64   `json:"count"`
	Modes string   `json:"modes"`
	Site  []string `json:"site"`
	Held  []string `json:"held_site"`
}

// ConcSplit: a split critical section seen in the run (pkg/locking/locking_verif_sections.go): inside ONE invocation
// of Func the lock of an object of class Class was released and taken again in write mode at another place of Func.
type ConcSplit struct {
	Key        string   `json:"key"`     // Func|class|FirstFunc:mode>SecondFunc (no line numbers)
	Pair       string   `json:"pair"`    // Func|class: the key of the baseline
	Variant    string   `json:"variant"` // FirstFunc:mode>SecondFunc
	ID         int      `json:"id"`      // id of the baseline entry; >= 1000: not in the baseline
	Func       string   `json:"func"`
	Class      string   `json:"class"`
	FirstFunc  string   `json:"first_func"`
	FirstMode  string   `json:"first_mode"`
	SecondFunc string   `json:"second_func"`
	Count      uint64   `json:"count"`
	Widened    uint64   `json:"widened"`
	Roles      []string `json:"roles"`
	First      []string `json:"first_site,omitempty"`
	Second     []string `json:"second_site,omitempty"`
	Label      string   `json:"object,omitempty"` // one of the objects it was seen on
}

type ConcResult struct {
	Splits        []ConcSplit       `json:"split_sections,omitempty"`
	NewSplits     []string          `json:"new_split_sections,omitempty"`     // keys not in corpus/conc_split_baseline.json
	ForeignSplits map[string]uint64 `json:"foreign_split_sections,omitempty"` // function|class: an orchestrating function took another object's lock twice (information)
	SplitMonitor  bool              `json:"split_monitor"`                    // the critical-section monitor was available
	Locks         []ConcLock        `json:"locks"`
	Edges         []ConcEdge        `json:"edges"`
	ClassEdges    map[string]uint64 `json:"class_edges"`
	Cycle         []ConcEdge        `json:"cycle,omitempty"`              // an offending cycle of the nesting relation with labels and call sites
	Excused       [][]string        `json:"single_role_cycles,omitempty"` // lock groups nested cyclically by ONE single-goroutine role only (harmless)
	Rank          map[int]int       `json:"rank,omitempty"`               // rank certificate (levels of the condensation) when the relation is cyclic
	Reentries     []ConcReentry     `json:"reentries,omitempty"`
	Counters      map[string]uint64 `json:"counters"`
	Blocked       []string          `json:"blocked,omitempty"` // goroutines that did not finish before the watchdog deadline
	Dump          string            `json:"goroutine_dump,omitempty"`
	Panics        []string          `json:"panics,omitempty"`
	Fatal         string            `json:"fatal,omitempty"` // output of a run that died (fatal runtime error)
	GoDeadlock    []string          `json:"godeadlock_reports,omitempty"`
	Races         []string          `json:"race_reports,omitempty"`
	Unbound       []string          `json:"unbound_allocations_on_nodes,omitempty"` // node lists an allocation whose node id is unset (known finding window)
	Observed      bool              `json:"observed"`
	Settled       bool              `json:"settled"`
	Final         *CoreObs          `json:"final_state,omitempty"`
}

const (
	concWatchdog   = 60 * time.Second // every driver goroutine must be done by then
	concSettleMax  = 20 * time.Second
	concGoDeadlock = 30 // seconds a lock may be waited for before go-deadlock reports (when enabled)
)

var concEventsOnce sync.Once

// ---- registry: lock address -> object identity ----
type concRegistry struct {
	sync.Mutex
	m map[uintptr]string
}

func (r *concRegistry) put(addr uintptr, label string) {
	r.Lock()
	if _, ok := r.m[addr]; !ok {
		r.m[addr] = label
	}
	r.Unlock()
}

func (r *concRegistry) walkQueue(q *objects.Queue) {
	r.put(locking.VerifLockAddr(&q.RWMutex), "queue:"+q.GetQueuePath())
	for _, c := range q.GetCopyOfChildren() {
		r.walkQueue(c)
	}
}

func (r *concRegistry) walkApp(a *objects.Application) {
	r.put(locking.VerifLockAddr(&a.RWMutex), "app:"+a.ApplicationID)
	for _, x := range a.GetAllRequests() {
		r.put(locking.VerifLockAddr(&x.RWMutex), "alloc:"+x.GetAllocationKey())
	}
	for _, x := range a.GetAllAllocations() {
		r.put(locking.VerifLockAddr(&x.RWMutex), "alloc:"+x.GetAllocationKey())
	}
}

// walk visits the scheduler objects reachable now (objects removed earlier keep the labels of earlier walks).
func (r *concRegistry) walk(cc *scheduler.ClusterContext) {
	defer func() { _ = recover() }()
	r.put(locking.VerifLockAddr(&cc.RWMutex), "cluster")
	for name, p := range cc.GetPartitionMapClone() {
		r.put(locking.VerifLockAddr(&p.RWMutex), "partition:"+name)
		r.walkQueue(p.VerifRoot())
		for _, a := range p.GetApplications() {
			r.walkApp(a)
		}
		c, rej := p.VerifTerminated()
		for _, a := range append(c, rej...) {
			r.walkApp(a)
		}
		for _, n := range p.GetNodes() {
			r.put(locking.VerifLockAddr(&n.RWMutex), "node:"+n.NodeID)
			for _, x := range n.GetYunikornAllocations() {
				r.put(locking.VerifLockAddr(&x.RWMutex), "alloc:"+x.GetAllocationKey())
			}
			for _, x := range n.GetForeignAllocations() {
				r.put(locking.VerifLockAddr(&x.RWMutex), "alloc:"+x.GetAllocationKey())
			}
		}
		for _, x := range p.VerifForeign() {
			r.put(locking.VerifLockAddr(&x.RWMutex), "alloc:"+x.GetAllocationKey())
		}
	}
	m := ugm.GetUserManager()
	r.put(locking.VerifLockAddr(&m.RWMutex), "ugm.manager")
	for _, ut := range m.GetUserTrackers() {
		r.put(locking.VerifLockAddr(&ut.RWMutex), "user:"+ut.GetResourceUsageDAOInfo().UserName)
	}
	for _, gt := range m.GetGroupTrackers() {
		r.put(locking.VerifLockAddr(&gt.RWMutex), "group:"+gt.GetResourceUsageDAOInfo().GroupName)
	}
}

// ---- one run ----
type concRun struct {
	d        *coreDriver
	c        *ConcCase
	router   http.Handler
	reg      *concRegistry
	activity atomic.Int64
	cycles   atomic.Int64
	allocs   atomic.Int64
	restN    atomic.Int64
	rest5xx  atomic.Int64
	opsDone  atomic.Int64
	confirms atomic.Int64
	confirm  chan CoreOp
	pmu      sync.Mutex
	panics   []string
	rng      *Rng
	shimRng  *Rng // used by takeEvents only (one goroutine)
}

func (r *concRun) guard(role string, f func()) {
	defer func() {
		if e := recover(); e != nil {
			buf := make([]byte, 4096)
			n := runtime.Stack(buf, false)
			r.pmu.Lock()
			if len(r.panics) < 8 {
				r.panics = append(r.panics, fmt.Sprintf("%s: %v\n%s", role, e, buf[:n]))
			}
			r.pmu.Unlock()
		}
	}()
	f()
}

func (r *concRun) exec(role string, op *CoreOp) {
	r.guard(fmt.Sprintf("%s op=%+v", role, *op), func() { r.d.exec(op) })
	r.opsDone.Add(1)
	r.activity.Add(1)
}

var concRestPaths = []string{
	"/ws/v1/partitions", "/ws/v1/partition/default/queues", "/ws/v1/partition/default/nodes",
	"/ws/v1/partition/default/applications/active", "/ws/v1/partition/default/applications/completed",
	"/ws/v1/partition/default/applications/rejected", "/ws/v1/partition/default/usage/users",
	"/ws/v1/partition/default/usage/groups", "/ws/v1/partition/default/placementrules", "/ws/v1/clusters",
	"/ws/v1/scheduler/healthcheck", "/ws/v1/scheduler/node-utilizations", "/ws/v1/fullstatedump",
	"/ws/v1/events/batch", "/ws/v1/config", "/ws/v1/metrics", "/ws/v1/partition/default/queue/root",
	"/ws/v1/partition/default/queue/root/applications", "/ws/v1/partition/default/node/node-1",
	"/ws/v1/partition/default/application/app-1", "/ws/v1/partition/default/application/app-2",
}

func (r *concRun) rest(role string, rng *Rng) {
	path := concRestPaths[rng.Intn(len(concRestPaths))]
	r.guard(role, func() {
		req := httptest.NewRequest(http.MethodGet, path, nil)
		w := httptest.NewRecorder()
		r.router.ServeHTTP(w, req)
		r.restN.Add(1)
		if w.Code >= 500 {
			r.rest5xx.Add(1)
		}
	})
}

func (r *concRun) background(role string) {
	r.guard(role, func() {
		cc := r.d.core.CC
		_ = scheduler.GetSchedulerHealthStatus(metrics.GetSchedulerMetrics(), cc)
		for _, p := range cc.GetPartitionMapClone() {
			for _, a := range p.VerifOutstandingRequests() {
				a.SetScaleUpTriggered(true)
			}
			p.VerifQuotaPreemption()
		}
		r.reg.walk(cc)
	})
}

func (r *concRun) partitionManager(role string, op *CoreOp) {
	r.guard(role, func() {
		if p := r.d.part(); p != nil {
			p.VerifCleanQueues()
			p.VerifCleanExpiredApps()
		}
	})
	r.opsDone.Add(1)
}

// roles of the goroutines. The SINGLE roles are one goroutine each in the real service (scheduler.go StartService:
// internalSchedule, handleAllocEvent, handleNodeEvent, handleInfraEvent); every other role stands for several
// goroutines (REST handlers, timers, partition manager cleaners, health / quota / outstanding-request loops, anything
// spawned with `go` by the core: role "").
var concRoleID = map[string]int{"": 0, "sched": 1, "rm": 2, "node": 3, "infra": 4, "bg": 5, "pm": 6, "timer": 7, "rest": 8, "rest0": 8, "rest1": 8, "shim": 9, "seq": 10}
var concSingleRoles = []int{1, 2, 3, 4}

func concRoleOfOp(kind string) string {
	switch kind {
	case "app_add", "app_remove", "alloc", "release":
		return "rm"
	case "node_add", "node_update", "node_drain", "node_undrain", "node_remove":
		return "node"
	case "reload":
		return "infra"
	case "fire_ph", "fire_state":
		return "timer"
	}
	return "pm"
}

func concIsSingle(role int) bool {
	for _, r := range concSingleRoles {
		if r == role {
			return true
		}
	}
	return false
}

// split the history over the input goroutines
func concThreads(ops []CoreOp) map[string][]CoreOp {
	th := map[string][]CoreOp{}
	for _, op := range ops {
		switch op.Kind {
		case "app_add", "app_remove", "alloc", "release":
			th["rm"] = append(th["rm"], op)
		case "node_add", "node_update", "node_drain", "node_undrain", "node_remove":
			th["node"] = append(th["node"], op)
		case "reload":
			th["infra"] = append(th["infra"], op)
		case "fire_ph", "fire_state":
			th["timer"] = append(th["timer"], op)
		case "clean":
			th["pm"] = append(th["pm"], op)
		}
	}
	return th
}

func (r *concRun) pace(rng *Rng) {
	switch rng.Intn(4) {
	case 0:
		runtime.Gosched()
	case 1, 2:
		time.Sleep(time.Duration(20+rng.Intn(400)) * time.Microsecond)
	}
}

// takeEvents polls the mock shim and turns the releases the core asks for into confirmations for the rm goroutine.
func (r *concRun) takeEvents() int {
	evs, _ := r.d.shim.take()
	n := 0
	for _, e := range evs {
		if e.Kind == "newalloc" {
			r.allocs.Add(1)
			if r.c.ReleaseAfterAlloc > 0 && r.shimRng.Intn(100) < r.c.ReleaseAfterAlloc {
				select {
				case r.confirm <- CoreOp{Kind: "release", App: e.App, Key: e.Key, TType: 1}:
					r.activity.Add(1)
					n++
				default:
				}
			}
		}
		if e.Kind == "release" && (e.TType == 2 || e.TType == 3 || e.TType == 4) {
			select {
			case r.confirm <- CoreOp{Kind: "release", App: e.App, Key: e.Key, TType: e.TType}:
				r.confirms.Add(1)
				r.activity.Add(1)
				n++
			default:
			}
		}
	}
	return n
}

type concGo struct {
	name string
	done atomic.Bool
}

func runConcCase(c *ConcCase) *ConcResult {
	res := &ConcResult{Counters: map[string]uint64{}, ClassEdges: map[string]uint64{}}
	d, err := newCoreDriver(&c.World)
	if err != nil {
		res.Panics = append(res.Panics, "initial configuration rejected: "+err.Error())
		return res
	}
	concEventsOnce.Do(func() { events.GetEventSystem().StartService() })
	r := &concRun{d: d, c: c, reg: &concRegistry{m: map[uintptr]string{}}, confirm: make(chan CoreOp, 8192), rng: NewRng(c.YieldSeed ^ 0xC14), shimRng: NewRng(c.YieldSeed ^ 0x5141)}
	r.router = webservice.VerifRouter(d.core.CC)
	// go-deadlock is reconfigured between runs; background goroutines of the process (event system) read its
	// options concurrently, which the race detector reports: not toggled in race runs
	raceRun := os.Getenv("CONC_RACE_LOG") != ""
	if raceRun {
		c.GoDeadlock = false
	} else if c.GoDeadlock {
		locking.VerifDeadlockDetection(true, concGoDeadlock, false)
	} else {
		locking.VerifDeadlockDetection(false, 60, true)
	}
	th := concThreads(c.Ops)
	r.reg.walk(d.core.CC)
	concSplitsInit()
	locking.VerifLockTraceStart(c.YieldSeed)

	var gos []*concGo
	var wg sync.WaitGroup
	spawn := func(name string, f func(rng *Rng)) *concGo {
		g := &concGo{name: name}
		gos = append(gos, g)
		rng := r.rng.Fork() // forked here: the generators are not shared between goroutines
		wg.Add(1)
		go func() {
			defer wg.Done()
			defer g.done.Store(true)
			locking.VerifLockSetRole(name)
			f(rng)
		}()
		return g
	}
	stopBg, stopSched, stopRm := make(chan struct{}), make(chan struct{}), make(chan struct{})
	stopped := func(ch chan struct{}) bool {
		select {
		case <-ch:
			return true
		default:
			return false
		}
	}
	var inputs sync.WaitGroup

	if c.Mode == "seq" {
		// baseline: the same work from one goroutine
		spawn("seq", func(rng *Rng) {
			for i := range c.Ops {
				op := &c.Ops[i]
				// the goroutine takes the role the op has in the concurrent runs
				switch op.Kind {
				case "sched":
					locking.VerifLockSetRole("sched")
					r.guard("seq", func() { d.core.Schedule() })
					r.cycles.Add(1)
				case "clean":
					locking.VerifLockSetRole("pm")
					r.partitionManager("seq", op)
				default:
					locking.VerifLockSetRole(concRoleOfOp(op.Kind))
					r.exec("seq", op)
				}
				r.takeEvents()
				locking.VerifLockSetRole("rm")
				for len(r.confirm) > 0 {
					op := <-r.confirm
					r.exec("seq", &op)
				}
				if rng.Chance(10) {
					locking.VerifLockSetRole("rest")
					r.rest("seq", rng)
				}
				if rng.Chance(5) {
					locking.VerifLockSetRole("bg")
					r.background("seq")
				}
			}
			for i := 0; i < 200; i++ {
				locking.VerifLockSetRole("sched")
				r.guard("seq", func() { d.core.Schedule() })
				r.cycles.Add(1)
				r.takeEvents()
				locking.VerifLockSetRole("rm")
				for len(r.confirm) > 0 {
					op := <-r.confirm
					r.exec("seq", &op)
				}
			}
		})
	} else {
		// rm: applications, allocations and the shim's confirmations, one goroutine as in the real service
		inputs.Add(1)
		spawn("rm", func(rng *Rng) {
			ops := th["rm"]
			tight := map[string]bool{}
			for _, k := range c.TightKeys {
				tight[k] = true
			}
			inputDone := false
			for i := 0; ; {
				select {
				case op := <-r.confirm:
					r.exec("rm", &op)
					continue
				default:
				}
				if i < len(ops) {
					r.exec("rm", &ops[i])
					i++
					if !(i < len(ops) && tight[ops[i].Key]) && (c.Burst == 0 || rng.Intn(100) >= c.Burst) {
						r.pace(rng)
					}
					continue
				}
				if !inputDone {
					inputDone = true
					inputs.Done()
				}
				select {
				case op := <-r.confirm:
					r.exec("rm", &op)
				case <-stopRm:
					return
				}
			}
		})
		for _, name := range []string{"node", "infra", "timer"} {
			name := name
			inputs.Add(1)
			spawn(name, func(rng *Rng) {
				defer inputs.Done()
				ops := th[name]
				for i := range ops {
					r.exec(name, &ops[i])
					r.pace(rng)
					if name != "node" {
						time.Sleep(time.Duration(100+rng.Intn(400)) * time.Microsecond)
					}
				}
			})
		}
		inputs.Add(1)
		spawn("pm", func(rng *Rng) {
			defer inputs.Done()
			ops := th["pm"]
			for i := range ops {
				r.partitionManager("pm", &ops[i])
				time.Sleep(time.Duration(100+rng.Intn(500)) * time.Microsecond)
			}
		})
		spawn("sched", func(rng *Rng) {
			for !stopped(stopSched) {
				r.guard("sched", func() {
					if d.core.Schedule() {
						r.activity.Add(1)
					}
				})
				r.cycles.Add(1)
				runtime.Gosched()
			}
		})
		spawn("shim", func(rng *Rng) {
			for !stopped(stopRm) {
				r.takeEvents()
				time.Sleep(100 * time.Microsecond)
			}
		})
		spawn("bg", func(rng *Rng) {
			for !stopped(stopBg) {
				r.background("bg")
				time.Sleep(300 * time.Microsecond)
			}
		})
		for _, name := range []string{"rest0", "rest1"} {
			name := name
			spawn(name, func(rng *Rng) {
				for !stopped(stopBg) {
					r.rest(name, rng)
					time.Sleep(time.Duration(50+rng.Intn(300)) * time.Microsecond)
				}
			})
		}
	}

	// phase 1: the input goroutines finish their lists
	deadline := time.Now().Add(concWatchdog)
	waitFor := func(w *sync.WaitGroup) bool {
		ch := make(chan struct{})
		go func() { w.Wait(); close(ch) }()
		select {
		case <-ch:
			return true
		case <-time.After(time.Until(deadline)):
			return false
		}
	}
	ok := true
	if c.Mode != "seq" {
		ok = waitFor(&inputs)
		close(stopBg)
		// phase 2: settle: no activity (ops, confirmations, allocations) while the scheduling loop keeps running
		if ok {
			settleEnd := time.Now().Add(concSettleMax)
			stable := 0
			for time.Now().Before(settleEnd) && stable < 3 {
				a, cy := r.activity.Load(), r.cycles.Load()
				time.Sleep(2 * time.Millisecond)
				for r.cycles.Load() < cy+40 && time.Now().Before(settleEnd) {
					time.Sleep(500 * time.Microsecond)
				}
				if r.activity.Load() == a && len(r.confirm) == 0 {
					stable++
				} else {
					stable = 0
				}
			}
			res.Settled = stable >= 3
		}
		close(stopSched)
		close(stopRm)
	}
	ok = waitFor(&wg) && ok
	if c.Mode == "seq" {
		res.Settled = ok
	}
	edges := locking.VerifLockTraceStop()
	splits := locking.VerifLockSplits()
	res.SplitMonitor = locking.VerifLockSectionsAvailable()
	if !ok {
		for _, g := range gos {
			if !g.done.Load() {
				res.Blocked = append(res.Blocked, g.name)
			}
		}
		buf := make([]byte, 1<<20)
		n := runtime.Stack(buf, true)
		res.Dump = string(buf[:n])
	}
	res.Panics = append(res.Panics, r.panics...)
	if c.GoDeadlock {
		res.GoDeadlock = locking.VerifDeadlockReports()
		if len(res.GoDeadlock) == 0 && locking.IsDeadlockDetected() {
			res.GoDeadlock = []string{"go-deadlock flagged a potential deadlock (no report text)"}
		}
		locking.VerifDeadlockDetection(false, 60, true)
	}
	_ = raceRun
	if len(res.Blocked) == 0 {
		func() {
			defer func() {
				if e := recover(); e != nil {
					res.Panics = append(res.Panics, fmt.Sprintf("observe: %v", e))
				}
			}()
			d.settle()
			r.takeEvents()
			r.reg.walk(d.core.CC)
			res.Final = d.observe()
			res.Observed = true
			for _, n := range res.Final.Nodes {
				for _, a := range n.Allocs {
					if a.Node == "" {
						res.Unbound = append(res.Unbound, fmt.Sprintf("node %s lists allocation %s of application %s (placeholder=%v) with empty node id", n.ID, a.Key, a.App, a.Ph))
					}
				}
			}
		}()
	}
	concResolve(res, edges, r.reg)
	concSplits(res, splits, r.reg)
	st := locking.VerifLockStats()
	res.Counters["lock_acquires"] = st.Acquires
	res.Counters["lock_nested_requests"] = st.Nested
	res.Counters["lock_max_depth"] = st.MaxDepth
	res.Counters["lock_unknown_release"] = st.UnknownRelease
	res.Counters["lock_yields"] = st.Yields
	for _, sp := range res.Splits {
		res.Counters["split_sections_seen"] += sp.Count
		res.Counters["split_windows_widened"] += sp.Widened
	}
	res.Counters["sched_cycles"] = uint64(r.cycles.Load())
	res.Counters["allocations"] = uint64(r.allocs.Load())
	res.Counters["ops"] = uint64(r.opsDone.Load())
	res.Counters["confirmations"] = uint64(r.confirms.Load())
	res.Counters["rest_calls"] = uint64(r.restN.Load())
	res.Counters["rest_5xx"] = uint64(r.rest5xx.Load())
	return res
}

// ---- edges: interning, labels, classes, cycle search ----
func concClassOf(label string) string {
	if i := strings.Index(label, ":"); i >= 0 {
		return label[:i]
	}
	if i := strings.Index(label, "#"); i >= 0 {
		return label[:i]
	}
	return label
}

func concEdgeClass(from, to string) string {
	cf, ct := concClassOf(from), concClassOf(to)
	if cf == "queue" && ct == "queue" {
		pf, pt := strings.TrimPrefix(from, "queue:"), strings.TrimPrefix(to, "queue:")
		switch {
		case strings.HasPrefix(pt, pf+"."):
			return "queue.ancestor>queue.descendant"
		case strings.HasPrefix(pf, pt+"."):
			return "queue.descendant>queue.ancestor"
		default:
			return "queue>queue.unrelated"
		}
	}
	return cf + ">" + ct
}

func concModes(r, w bool) string {
	switch {
	case r && w:
		return "RW"
	case r:
		return "R"
	default:
		return "W"
	}
}

func concResolve(res *ConcResult, edges []locking.VerifEdge, reg *concRegistry) {
	ids := map[uintptr]int{}
	typeCount := map[string]int{}
	intern := func(addr uintptr, typ string) int {
		if id, ok := ids[addr]; ok {
			return id
		}
		id := len(res.Locks) + 1
		ids[addr] = id
		reg.Lock()
		label, ok := reg.m[addr]
		reg.Unlock()
		if !ok {
			typeCount[typ]++
			label = fmt.Sprintf("%s#%d", typ, typeCount[typ])
		}
		res.Locks = append(res.Locks, ConcLock{ID: id, Label: label, Class: concClassOf(label)})
		return id
	}
	for _, e := range edges {
		f, t := intern(e.From, e.FromType), intern(e.To, e.ToType)
		ce := ConcEdge{From: f, To: t, FromLabel: res.Locks[f-1].Label, ToLabel: res.Locks[t-1].Label, Count: e.Count,
			Modes: concModes(e.HeldRead, e.HeldWrite) + ">" + concModes(e.ReqRead, e.ReqWrite), Roles: e.Roles, Site: e.Site, HeldSite: e.HeldSite}
		ce.Class = concEdgeClass(ce.FromLabel, ce.ToLabel)
		res.ClassEdges[ce.Class] += e.Count
		res.Edges = append(res.Edges, ce)
	}
	for _, x := range locking.VerifLockReentries() {
		reg.Lock()
		label, ok := reg.m[x.Lock]
		reg.Unlock()
		if !ok {
			label = x.Type
		}
		res.Reentries = append(res.Reentries, ConcReentry{Label: label, Count: x.Count, Modes: concModes(x.HeldRead, !x.HeldRead) + ">" + concModes(x.Read, !x.Read), Site: x.Site, Held: x.HeldSite})
	}
	concAnalyse(res)
}

// concAnalyse computes the strongly connected components of the lock graph (Tarjan). A component with inner edges
// is excused when all its inner edges were shown by ONE single-goroutine role only; otherwise a cycle inside it is
// reported. The rank certificate (component index in topological order) is what Coq's order_ok re-checks.
func concAnalyse(res *ConcResult) {
	n := len(res.Locks)
	adj := make([][]int, n+1)
	for i, e := range res.Edges {
		adj[e.From] = append(adj[e.From], i)
	}
	index, low, comp := make([]int, n+1), make([]int, n+1), make([]int, n+1)
	onStack := make([]bool, n+1)
	for i := range index {
		index[i], comp[i] = -1, -1
	}
	var stack []int
	next, ncomp := 0, 0
	var strong func(v int)
	strong = func(v int) {
		index[v], low[v] = next, next
		next++
		stack = append(stack, v)
		onStack[v] = true
		for _, ei := range adj[v] {
			w := res.Edges[ei].To
			if index[w] < 0 {
				strong(w)
				if low[w] < low[v] {
					low[v] = low[w]
				}
			} else if onStack[w] && index[w] < low[v] {
				low[v] = index[w]
			}
		}
		if low[v] == index[v] {
			for {
				w := stack[len(stack)-1]
				stack = stack[:len(stack)-1]
				onStack[w] = false
				comp[w] = ncomp
				if w == v {
					break
				}
			}
			ncomp++
		}
	}
	for v := 1; v <= n; v++ {
		if index[v] < 0 {
			strong(v)
		}
	}
	// Tarjan numbers the components in reverse topological order (sinks first)
	inner := map[int][]int{}
	for i, e := range res.Edges {
		if comp[e.From] == comp[e.To] {
			inner[comp[e.From]] = append(inner[comp[e.From]], i)
		}
	}
	if len(inner) == 0 {
		return
	}
	res.Rank = map[int]int{}
	for v := 1; v <= n; v++ {
		res.Rank[v] = ncomp - 1 - comp[v]
	}
	comps := make([]int, 0, len(inner))
	for c := range inner {
		comps = append(comps, c)
	}
	sort.Ints(comps)
	for _, c := range comps {
		roles := map[int]bool{}
		for _, ei := range inner[c] {
			for _, r := range res.Edges[ei].Roles {
				roles[concRoleID[r]] = true
			}
		}
		single := len(roles) == 1
		for r := range roles {
			if !concIsSingle(r) {
				single = false
			}
		}
		if single {
			var names []string
			for v := 1; v <= n; v++ {
				if comp[v] == c {
					names = append(names, res.Locks[v-1].Label)
				}
			}
			res.Excused = append(res.Excused, names)
			continue
		}
		if res.Cycle == nil {
			res.Cycle = concCycleIn(res.Edges, inner[c])
		}
	}
}

// concCycleIn returns the edges of one cycle among the given (inner) edges of a strongly connected component.
func concCycleIn(edges []ConcEdge, inner []int) []ConcEdge {
	adj := map[int][]int{}
	for _, ei := range inner {
		adj[edges[ei].From] = append(adj[edges[ei].From], ei)
	}
	start := edges[inner[0]].From
	pos := map[int]int{} // lock -> position in path
	var path []int       // edge indexes
	v := start
	for {
		if p, ok := pos[v]; ok {
			var cyc []ConcEdge
			for _, ei := range path[p:] {
				cyc = append(cyc, edges[ei])
			}
			return cyc
		}
		pos[v] = len(path)
		ei := adj[v][0] // every lock of a component with inner edges has an inner outgoing edge
		path = append(path, ei)
		v = edges[ei].To
	}
}
