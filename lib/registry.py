"""Static tables for the check driver: which engines serve which property, how the
(index, kind) pairs returned by the Coq checkers are classified, and how single cases are
cut out of a cases JSON file for replay."""

TRUSTED_BASE = [
    "Coq 8.16.1 kernel and its bytecode VM (vm_compute); no native_compute",
    "no axioms declared by the development (scan for Axiom/Parameter/Admitted on every run); Print Assumptions under every property theorem",
    "Go harness (/verif/harness): generators, projection of observables, hook files (//go:build verif) in /repo",
    "hand-written Gallina model is tied to the code only by the correspondence run (differential testing on generated inputs)",
    "translator harness/extract.go for Generated/*.v (FSM tables by exhaustive enumeration of the real fsm objects, constants via go/ast)",
    "translator harness/gotrans*.go for Generated/Go*.v (restricted Go subset -> Gallina via go/ast + go/types; stripped statement forms: Lock/Unlock/RLock/RUnlock and their defers, log.* and metrics.* call statements, event sends; nil vs empty map not distinguished, slice capacity = length, distinct access paths assumed not to alias)",
]

import glob
import importlib.util
import os

ENGINES = {}
PROPS = {}
for _f in sorted(glob.glob(os.path.join(os.path.dirname(os.path.abspath(__file__)), "engines", "*.py"))):
    _spec = importlib.util.spec_from_file_location("eng_" + os.path.basename(_f)[:-3], _f)
    _m = importlib.util.module_from_spec(_spec)
    _spec.loader.exec_module(_m)
    ENGINES.update(getattr(_m, "ENGINES", {}))
    for _k, _v in getattr(_m, "PROPS", {}).items():
        if _k in PROPS:
            # several engine files may contribute to one property: lists are united, dicts merged,
            # scalar fields are taken from whichever file defines them first
            for _fld, _val in _v.items():
                if isinstance(_val, list):
                    PROPS[_k][_fld] = PROPS[_k].get(_fld, []) + [x for x in _val if x not in PROPS[_k].get(_fld, [])]
                elif isinstance(_val, dict) and isinstance(PROPS[_k].get(_fld, {}), dict) and _fld != "manifest":
                    _d = dict(PROPS[_k].get(_fld, {}))
                    _d.update(_val)
                    PROPS[_k][_fld] = _d
                elif _fld not in PROPS[_k]:
                    PROPS[_k][_fld] = _val
        else:
            PROPS[_k] = dict(_v)


def classify(engine, kind):
    fn = ENGINES[engine].get("classify")
    if fn:
        return fn(kind)
    k = ENGINES[engine]["kinds"].get(kind)
    if k is None:
        return dict(**{"class": "corr"}, props=[p for p, s in PROPS.items() if engine in s["engines"]], what="unclassified kind %d" % kind)
    d = dict(k)
    d["class"] = d.pop("cls")
    return d


def extract_case(engine, cases_json, idx):
    div = ENGINES[engine].get("index_div")
    if div:
        c = dict(cases_json["cases"][idx // div])
        c["failing_step"] = idx % div
        return c
    secs = ENGINES[engine].get("sections")
    if not secs:
        return cases_json[idx] if isinstance(cases_json, list) else cases_json["cases"][idx]
    best = None
    for name, base in secs:
        if idx >= base:
            best = (name, base)
    name, base = best
    return {"section": name, "case": cases_json[name][idx - base]}


def wrap_case(engine, case):
    """a cases JSON containing only that case (what `harness <engine> -replay` reads)"""
    if case is None or "error" in case:
        return None
    if ENGINES[engine].get("index_div"):
        c = dict(case)
        c.pop("failing_step", None)
        return {"cases": [c]}
    secs = ENGINES[engine].get("sections")
    if not secs:
        return {"cases": [case]}
    out = {name: [] for name, _ in secs}
    out[case["section"]] = [case["case"]]
    return out
