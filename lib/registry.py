"""Static tables for the check driver: which engines serve which property, how the
(index, kind) pairs returned by the Coq checkers are classified, and how single cases are
cut out of a cases JSON file for replay."""

TRUSTED_BASE = [
    "Coq 8.16.1 kernel and its bytecode VM (vm_compute); no native_compute",
    "no axioms declared by the development (scan for Axiom/Parameter/Admitted on every run); Print Assumptions under every property theorem",
    "Go harness (/verif/harness): generators, projection of observables, hook files (//go:build verif) in /repo",
    "hand-written Gallina model is tied to the code only by the correspondence run (differential testing on generated inputs)",
    "translator harness/extract.go for Generated/*.v (FSM tables by exhaustive enumeration of the real fsm objects, constants via go/ast)",
]

# kind numbers are engine specific
ENGINES = {
    "ring": dict(
        n=dict(quick=300, thorough=4000), shards=dict(quick=1, thorough=4),
        kinds={
            1: dict(cls="corr", props=["C20"], what="ring/store/stream model and implementation disagree"),
            2: dict(cls="oracle", props=["C20"], what="history result differs from the gap-free range specification"),
            3: dict(cls="known", props=["C20"], finding="C20-stream-window", what="stream known window"),
        },
        sections=[("ring", 0), ("store", 100000), ("stream", 200000)],
    ),
}

PROPS = {
    "C20": dict(engines=["ring"], props_file="Props/C20.v", checker_vo="Oracles/RingCheck.vo", level="proof",
                assumptions=["event ids stay below 2^64", "ring capacities and resize targets are positive (the event system substitutes the default for 0)"]),
}


def classify(engine, kind):
    k = ENGINES[engine]["kinds"].get(kind)
    if k is None:
        return dict(**{"class": "corr"}, props=[p for p, s in PROPS.items() if engine in s["engines"]], what="unclassified kind %d" % kind)
    d = dict(k)
    d["class"] = d.pop("cls")
    return d


def extract_case(engine, cases_json, idx):
    secs = ENGINES[engine].get("sections")
    if not secs:
        return cases_json[idx] if isinstance(cases_json, list) else cases_json["cases"][idx]
    best = None
    for name, base in secs:
        if idx >= base:
            best = (name, base)
    name, base = best
    return {"section": name, "case": cases_json[name][idx - base]}


def wrap_case(engine, case):
    """a cases JSON containing only that case (what `harness <engine> -replay` reads)"""
    if case is None or "error" in case:
        return None
    secs = ENGINES[engine].get("sections")
    if not secs:
        return {"cases": [case]}
    out = {name: [] for name, _ in secs}
    out[case["section"]] = [case["case"]]
    return out
