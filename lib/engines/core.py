"""engine core: ClusterContext driven synchronously through SI requests, scheduling cycles, timers, reloads.

Kinds returned by Oracles/CoreCheck.v are numbers P*100 + sub where P is the property number (1 = C01 ...):
  sub 1..49   oracle failure (the property predicate is false on the implementation's observation)
  sub 50..89  oracle failure inside the window of a recorded known finding (finding id from KNOWN below)
  sub 90..99  correspondence failure (operational model disagrees with the implementation)
The index is history*1000 + step.
"""
import glob
import json
import os

_HERE = os.path.dirname(os.path.abspath(__file__))
# (kind) -> (finding id); filled from lib/engines/core_known.json fragments written by the oracle builders
KNOWN = {}
WHAT = {}
for _f in sorted(glob.glob(os.path.join(_HERE, "core_kinds*.json"))):
    _d = json.load(open(_f))
    KNOWN.update({int(k): v for k, v in _d.get("known", {}).items()})
    WHAT.update({int(k): v for k, v in _d.get("what", {}).items()})


def _classify(kind):
    if kind > 100000000:
        return {"class": "info", "props": ["*"], "what": {100000001: "steps_validated_by_model", 100000002: "steps_total"}.get(kind, "info")}
    p = "C%02d" % (kind // 100)
    sub = kind % 100
    what = WHAT.get(kind, "core oracle kind %d" % kind)
    if sub >= 90:
        return {"class": "corr", "props": [p], "what": what}
    if sub >= 50:
        return {"class": "known", "props": [p], "finding": KNOWN.get(kind, "unlisted-%d" % kind), "what": what}
    return {"class": "oracle", "props": [p], "what": what}


ENGINES = {
    "core": dict(
        path="harness/core_*.go coq/Core coq/Oracles/CoreCheck.v",
        about="histories of SI requests against the real ClusterContext; observations after every step; property oracles and model correspondence evaluated in Coq",
        n=dict(quick=30, thorough=150), shards=dict(quick=3, thorough=6), search_shards=2,
        kinds={}, classify=_classify, index_div=1000,
    ),
}
PROPS = {}
