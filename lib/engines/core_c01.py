"""C01 C02 C03 on the core engine (lead)"""
ENGINES = {}
_NOTE = ("theorems are about the hand-written Gallina model of the scheduler core (coq/Core); the model is tied to the code by the "
         "correspondence run of the core engine (real ClusterContext driven through generated SI histories, observations after every step); "
         "the oracle evaluated on implementation observations is the same Gallina predicate the theorems state (coq/Core/Ledger.v)")
PROPS = {
    "C01": dict(engines=["core"], props_file="Props/C01.v", extra_props=["Props/C01b.v"], checkers=["Oracles/CoreC01.v", "Oracles/CoreModelCheck.v", "Oracles/CoreC123All.v"], checker_fns={"core": "Oracles.CoreC123All:c01_all_check"},
                variants=["", "gangdeep", "reserve", "swap", "preemptdeep", "gang"], coq_scan=["Core", "Oracles/CoreC01.v", "Props/C01.v", "Props/C01b.v", "Base"], level="proof",
                assumptions=["single partition, single RM", "quantities stay within int64 (generators far below)"],
                manifest=dict(category="proof", text="Coq: node ledger invariant (allocated = sum of bound allocations, available = capacity - allocated - occupied) for every sequence of node operations of the model and bind-safety of every admitted scheduling decision; the same predicates run as oracles on every observed state/decision of the real scheduler", note=_NOTE)),
    "C02": dict(engines=["core", "reload"], props_file="Props/C02.v", checkers=["Oracles/CoreC01.v", "Oracles/CoreModelCheck.v", "Oracles/CoreC02Conf.v", "Oracles/CoreC123All.v"], checker_fns={"core": "Oracles.CoreC123All:c02_all_check", "reload": "Oracles.CoreC02Conf:c02conf_check_all"},
                variants=["", "gangdeep", "gang", "reload", "swap", ""], coq_scan=["Core", "Oracles/CoreC01.v", "Oracles/CoreC02Conf.v", "Props/C02.v", "Base"], level="proof",
                assumptions=["single partition, single RM"],
                manifest=dict(category="proof", text="Coq: headroom / TryIncAllocatedResource soundness (an admitted increment keeps every ancestor within the types its maximum defines) for all queue trees and sparse vectors; oracle on every observed scheduling decision and forced-change classification", note=_NOTE)),
    "C03": dict(engines=["core"], props_file="Props/C03.v", extra_props=["Props/C03b.v"], checkers=["Oracles/CoreC01.v", "Oracles/CoreModelCheck.v", "Oracles/CoreC123All.v"], checker_fns={"core": "Oracles.CoreC123All:c03_all_check"},
                variants=["", "gangdeep", "swap", "preemptdeep", "reserve", "gang"], coq_scan=["Core", "Oracles/CoreC01.v", "Props/C03.v", "Props/C03b.v", "Base"], level="proof",
                assumptions=["single partition, single RM"],
                manifest=dict(category="proof", text="Coq: books-agree invariant of the model (application, queue, node, root ledgers are sums over live allocations and asks; membership both ways) over all operation sequences; oracle on every observed state", note=_NOTE)),
}
