"""engine sort: queue/application sorters, sorted ask list, node collection and iterators (C19)"""
ENGINES = {
    "sort": dict(
        path="harness/sort.go harness/sort_nodes.go harness/sort_engine.go coq/Sort coq/Oracles/SortCheck.v coq/Props/C19.v",
        about="Gallina model of the comparators of sorters.go (Go's insertion sort, fair-max lookup), Allocation.LessThan + sortedRequests, baseNodeCollection + iterators; strict-weak-order / permutation-invariance / invariant theorems; correspondence and order oracles on every permutation (n<=5) and random permutations (n<=12) sorted by the real code, node histories step by step",
        n=dict(quick=60, thorough=250), shards=dict(quick=1, thorough=6),
        kinds={
            1: dict(cls="corr", props=["C19"], what="sort/ask list/node collection model and implementation disagree"),
            2: dict(cls="oracle", props=["C19"], what="a sorter returned two candidates the policy distinguishes in the wrong relative order (the order depends on how the candidates were stored) or lost/duplicated a candidate"),
            3: dict(cls="known", props=["C19"], finding="C19-pending-tiebreak", what="pending tie-break window"),
            4: dict(cls="oracle", props=["C19"], what="node iteration: a registered node not visited exactly once, unreserved view wrong, order/cached score not current, or the scores do not order the nodes like the documented utilisation score"),
            5: dict(cls="known", props=["C19"], finding="C19-foreign-stale", what="stale score after a Node method that does not notify"),
            6: dict(cls="oracle", props=["C19"], what="sortedRequests not sorted by (priority desc, create time asc) or not exactly the inserted-not-removed asks"),
        },
        sections=[("qsort", 0), ("asort", 100000), ("fam", 200000), ("req", 300000), ("node", 400000)],
    ),
}

PROPS = {
    "C19": dict(
        engines=["sort"], props_file="Props/C19.v", checkers=["Oracles/SortCheck.v"],
        coq_scan=["Sort", "Oracles/SortCheck.v", "Props/C19.v"], level="proof",
        manifest=dict(
            category="proof",
            text="Coq theorems: a strict weak order has exactly one stable sorted permutation and Go's insertion sort computes it (so the output is the same function of the keys for every input permutation); priority, submission-time/priority and (for non-negative, non-NaN shares) the usage-ratio application comparators, the ask order and the priority/fair-share part of the queue comparators are strict weak orders; the fair queue comparators with the pending tie-break are refuted as strict weak orders (witness replayed on the code, known finding) and proved permutation-invariant for every pair distinguished by priority or fair share (_partial); sortedRequests stays sorted and holds exactly the live asks after any insert/remove history (real binary search modelled); node collection: tree view = sorted permutation of the map view, both iterators visit every registered node once / skip exactly reserved nodes, cached score = current score for every node whose last score-changing method notifies the listeners (foreign allocation add/remove/update and UpdateAllocatedResource do not: refuted, known finding)",
            note="theorems are about the hand-written Gallina model (coq/Sort); sort.SliceStable is modelled exactly for n<=20 (one insertion block) and by its specification (stable) above; node scores enter the node model only as order-preserving integer keys supplied by the real ScoreNode; tie to the code: correspondence run (every permutation for n<=4/5, random permutations up to n=12, node histories step by step) with the order oracle evaluated on the implementation's outputs",
            technique="Coq proof (strict weak orders, uniqueness of stable sort, invariants by induction) + model/implementation correspondence + order oracle on implementation outputs"),
        assumptions=[
            "sibling sets sorted by sort.SliceStable have at most 20 elements for the exact insertion-sort model (12 in the generators); above that Go's stable merge is trusted to return the stable sorted permutation when the comparator is a strict weak order",
            "application usage shares are neither NaN nor negative (allocated quantities and totals non-negative) for the share-based application orders",
            "node scores are not NaN (finite non-negative resource weights) and at most two weighted resource types contribute (float addition over a Go map is order dependent beyond that)",
            "histories never insert an ask key that is still present in sortedRequests (PartitionContext.UpdateAllocation calls AddAllocationAsk only for unknown keys; AddAllocationAsk itself would insert a second entry)",
        ]),
}
