"""C09 (reservations) served by the core engine: oracle Oracles/CoreC09.v, component model Core/Reserve.v"""
ENGINES = {}
PROPS = {
    "C09": dict(
        engines=["core"], props_file="Props/C09.v", checkers=["Oracles/CoreC09.v"],
        checker_fns={"core": "Oracles.CoreC09:c09_check_all"},
        variants=["reserve", "preemptdeep", "gangdeep", "", "reserve", "recover"],
        coq_scan=["Core/Reserve.v", "Core/ReserveLemmas.v", "Core/ReserveProofs.v", "Core/ReserveProofs2.v",
                  "Oracles/CoreC09.v", "Props/C09.v", "Core/Obs.v", "Base"],
        level="proof",
        assumptions=[
            "allocation keys are unique over the partition while in use (SI contract: the shim uses pod UIDs); Node.reservations is keyed by the allocation key only",
            "a reservation is requested by the scheduler for the required node itself when the ask has one (callers tryRequiredNode / tryNodes / preemption)",
            "the partition counter may exceed the number of reservations (removeAsksInternal, wait timeout, preemption cancel, application removal do not decrement it); proved: counter >= number of reservations",
        ],
        manifest=dict(
            category="proof",
            text="Coq theorems over a component model of the four reservation views (Application.reservations, Node.reservations, Queue.reservedApps, partition counter) with all writers (reserve/unReserve, reserveInternal/unReserveInternal, Node.Reserve/unReserve, Queue.Reserve/UnReserve, cancelReservations, removeAsksInternal, wait timeout, preemption cancel, removeNode, removeApplication, termination, allocate Unreserved/AllocatedReserved): views_agree, counter_ge_card, one_per_ask, one_per_node_unless_required, only_outstanding, reserved_not_given_away, cleanup (state form and event by event) as invariants over all operation sequences; the same predicates are evaluated on every observed state of the real ClusterContext and every observed change of the views is rebuilt from the model's writers (correspondence kind 990)",
            note="theorems are about the hand-written Gallina model (coq/Core/Reserve.v); the tie to the Go code is the correspondence run of the core engine plus 11 pinned reservation histories; two defects found and fixed (reservation kept by a terminated application; reservation kept by an ask allocated through placeholder swap / shim binding)",
            technique="Coq invariant proofs + oracle and model correspondence on implementation observations"),
    ),
}
