"""engine conf: configuration validation soundness, loadability, determinism (C15)"""
ENGINES = {
    "conf": dict(
        path="harness/conf.go harness/conf_gen.go coq/Conf coq/Oracles/ConfCheck.v coq/Props/C15.v",
        about="Gallina model of configvalidator.go (all check* functions and the mutations Validate performs) and of the configuration load path (queue creation, ACL / resource / template parsing, placement rule construction, ugm limits, update of a running partition, partition removal); WF predicate of the documented hierarchy rules (11 conjuncts); validate_sound / validate_loadable / validate_perm; correspondence through vm_compute on generated YAML documents (validated 3 times + 2 permuted renderings, loaded into a new scheduler and as a reload)",
        n=dict(quick=250, thorough=1000), shards=dict(quick=1, thorough=6),
        kinds={
            1: dict(cls="corr", props=["C15"], what="model Validate and configs.LoadSchedulerConfigFromByteArray disagree (verdict, error class or validated configuration)"),
            5: dict(cls="corr", props=["C15"], what="model Load and the observed load (new scheduler / reload of a running one) disagree"),
            2: dict(cls="oracle", props=["C15"], what="accepted configuration violates a documented hierarchy rule (WF conjunct fails on the configuration the implementation returned)"),
            3: dict(cls="oracle", props=["C15"], what="loading an accepted configuration failed, panicked, hung or left the scheduler without placement rules"),
            4: dict(cls="oracle", props=["C15"], what="validation verdict changed under permutation of map entries / rendering order / repeated run"),
            11: dict(cls="known", props=["C15"], finding="C15-limit-wildcard-ancestor", what="limit above an ancestor's wildcard limit while another ancestor names the user"),
            12: dict(cls="known", props=["C15"], finding="C15-fixed-rule-offroot", what="fixed rule whose queue starts with root outside the hierarchy"),
            13: dict(cls="known", props=["C15"], finding="C15-rules-unbuildable", what="placement rules the placement manager cannot build"),
            14: dict(cls="known", props=["C15"], finding="C15-partition-removal-deadlock", what="reload dropping a partition never returns"),
        },
    ),
}

PROPS = {
    "C15": dict(
        engines=["conf"], props_file="Props/C15.v", checkers=["Oracles/ConfCheck.v"],
        coq_scan=["Conf", "Oracles/ConfCheck.v", "Props/C15.v"], level="proof",
        explanation="theorems are about the Gallina model of configvalidator.go and of the load path; the model is tied to the code by the correspondence run (verdict, error class, validated configuration, load result of a new and of a running scheduler) and the oracles (WF, loadable, determinism) are evaluated on what the implementation returned",
        manifest=dict(
            category="proof",
            text="Coq theorems over a Gallina transcription of configvalidator.go and of the configuration load path: every accepted configuration satisfies the documented rules conjunct by conjunct (single root without limits, valid unique names, quantities readable, each maximum within the maximum of every ancestor also through levels that leave a type undefined, guaranteed within maximum, saturating sum of children's guaranteed within the parent's guaranteed and maximum, max-applications non-increasing, limits within their queue); user/group limits are proved within the limit of every ancestor that names the user and within every ancestor's wildcard when none names it, the stronger documented reading is refuted with a witness accepted by the real code (known finding); placement rules are proved resolvable up to one refuted corner (known finding); loading an accepted configuration into a new or running scheduler is proved free of hierarchy/ACL/quantity/limit errors and of panics, and fully successful under the two side conditions that exclude the recorded findings (unbuildable placement rules, reload dropping a partition); accept/reject is proved independent of the order of every map of the configuration. Five defects found this way were repaired by fix: commits.",
            note="theorems are about the hand-written model (coq/Conf); YAML decoding, regexp.Compile, float parsing of resource weights and the Go runtime are outside the model; the tie to the code is differential (250 generated documents + 125 targeted limit-chain documents per quick run + 34 pinned ones, each validated 3 times and in 2 permuted renderings, loaded twice); strings are modelled as ASCII bytes; one RM; reload is exercised on schedulers without applications (C16 covers running state)",
            technique="Coq proof (induction over queue trees, relational proof for permutations) + model/implementation correspondence + oracle on implementation output"),
        assumptions=[
            "strings are ASCII (ToLower / TrimSpace / regexps are modelled on bytes < 128)",
            "resource type names are non-empty and interned injectively by the harness (vcore = 0)",
            "regexp.Compile of placement filter entries is an external predicate (table recorded by the harness); every theorem holds for any such predicate",
            "partition names do not start with '['; the running scheduler of a reload has at least one partition and no applications",
        ]),
}
