"""engine conf: configuration validation soundness, loadability, determinism (C15)"""
ENGINES = {
    "conf": dict(
        path="harness/conf.go harness/conf_gen.go coq/Conf coq/Oracles/ConfCheck.v coq/Props/C15.v",
        about="Gallina model of configvalidator.go (all check* functions and the mutations of Validate) and of the configuration load path (queue creation, ACL/resource/template parsing, placement rule construction, ugm limits, partition update); WF predicate of the documented hierarchy rules; correspondence through vm_compute on generated YAML documents",
        n=dict(quick=350, thorough=1000), shards=dict(quick=1, thorough=6),
        kinds={
            1: dict(cls="corr", props=["C15"], what="model Validate and configs.LoadSchedulerConfigFromByteArray disagree (verdict, error class or validated configuration)"),
            5: dict(cls="corr", props=["C15"], what="model Load and the observed load (new scheduler / reload) disagree"),
            2: dict(cls="oracle", props=["C15"], what="accepted configuration violates a documented hierarchy rule (WF)"),
            3: dict(cls="oracle", props=["C15"], what="loading an accepted configuration failed, panicked, hung or left the scheduler without placement rules"),
            4: dict(cls="oracle", props=["C15"], what="validation verdict changed under permutation of map entries / rendering order / repeated run"),
            11: dict(cls="known", props=["C15"], finding="C15-limit-wildcard-ancestor", what="limit above an ancestor's wildcard limit"),
            12: dict(cls="known", props=["C15"], finding="C15-fixed-rule-offroot", what="fixed rule rootx"),
            13: dict(cls="known", props=["C15"], finding="C15-rules-unbuildable", what="placement rules the placement manager cannot build"),
            14: dict(cls="known", props=["C15"], finding="C15-partition-removal-deadlock", what="reload dropping a partition hangs"),
        },
    ),
}

PROPS = {
    "C15": dict(engines=["conf"], props_file="Props/C15.v", checkers=["Oracles/ConfCheck.v"],
                coq_scan=["Conf", "Oracles/ConfCheck.v", "Props/C15.v"], level="proof",
                manifest=dict(category="proof", text="TBD", note="TBD", technique="Coq proof over a Gallina model of the validator and loader + model/implementation correspondence"),
                assumptions=[]),
}
