"""C04 (allocation protocol seen by the shim) - builder proto; pinned reproducers: corpus/core_c04.json"""
ENGINES = {}
_NOTE = ("the judge is the monitor automaton coq/Core/ShimMonitor.v over the interleaved stream of shim requests and core messages; the theorems say the judge is sound "
         "for ALL traces (prefix closed, no key bound twice without a release, one answer per submission, a binding needs a submitted ask / accepted application / accepted node); "
         "the tie to the code is the run of exactly this automaton on the recorded SI traffic of the real scheduler in every history, the per-step simulation check between "
         "observed core state and monitor state, and the announcement model coq/Core/Announce.v compared with the messages of every step. There is no operational model of the "
         "whole core from which protocol_ok would follow for all histories: that part is search, not proof")
PROPS = {
    "C04": dict(engines=["core"], props_file="Props/C04.v", checkers=["Oracles/CoreC04.v"],
                checker_fns={"core": "Oracles.CoreC04:c04_check_all"},
                variants=["gangdeep", "preemptdeep", "gang", ""], coq_scan=["Core/ShimMonitor.v", "Core/ShimMonitorProofs.v", "Core/Announce.v", "Core/Guard.v", "Core/Proj.v", "Oracles/CoreC04.v", "Props/C04.v", "Core/Obs.v", "Base"], level="proof",
                assumptions=["the harness is synchronous: a request is processed completely (IEnd) before the next one starts, so 'exactly one answer' means one answer inside the request",
                             "allocation keys are unique per partition (pod UIDs); two live asks with the same key under different applications are not tracked",
                             "a release with TIMEOUT that the core did not announce ends a bound allocation but not an outstanding ask (removeAllocation)"],
                manifest=dict(category="proof", text="Coq: the shim-side protocol monitor is a sound judge for every trace - accepted traces are prefix closed, between two new-allocation messages for a key there is a release of it (no_double_bind), a new allocation is accepted only for a submitted ask of an accepted application on an accepted node (bind_sound), answers to applications and nodes are exactly-once; the monitor runs inside Coq on the recorded SI traffic of every history of the real scheduler, together with the no-trace check for rejected items, the simulation check core state vs shim view and the announcement model of context.go/partition.go",
                              note=_NOTE, technique="Coq proof about a protocol monitor + monitor run on implementation traffic (vm_compute) + announcement-model correspondence")),
}
