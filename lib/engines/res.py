"""engine res: resource arithmetic and quantity parsing (C18)"""
ENGINES = {
    "res": dict(
        path="harness/res.go harness/resgen.go harness/resextract.go coq/Base coq/Oracles/ResCheck.v coq/Props/C18.v",
        about="Gallina model of pkg/common/resources (resources.go, quantity.go), component-wise specification theorems, correspondence through vm_compute",
        n=dict(quick=2500, thorough=25000), shards=dict(quick=2, thorough=8),
        kinds={
            1: dict(cls="corr", props=["C18"], what="resources model and implementation disagree"),
            2: dict(cls="oracle", props=["C18"], what="result differs from the arbitrary-precision / component-wise specification"),
            4: dict(cls="oracle", props=["C18"], what="an argument (or resources.Zero) was modified, or the result aliases an argument"),
            5: dict(cls="oracle", props=["C18"], what="the implementation panicked"),
        },
    ),
}

PROPS = {
    "C18": dict(engines=["res"], props_file="Props/C18.v", checkers=["Oracles/ResCheck.v"],
                coq_scan=["Base", "Generated/Quantity.v", "Oracles/ResCheck.v", "Props/C18.v"], level="proof",
                variant="",
                manifest=dict(category="proof", text="TODO", note="TODO", technique="Coq proof + model/implementation correspondence"),
                assumptions=[]),
}
