"""engine res: resource arithmetic and quantity parsing (C18)"""
# kind numbers are engine specific (Oracles/ResCheck.v)
ENGINES = {
    "res": dict(
        path="harness/res.go harness/resgen.go harness/resextract.go coq/Base coq/Generated/Quantity.v coq/Oracles/ResCheck.v coq/Props/C18.v",
        about="Gallina model of pkg/common/resources (resources.go, quantity.go) with Go int64 wrap-around and binary64 (SpecFloat) arithmetic; theorems: calculators = clamp of the exact result, component-wise specification of every vector operation and predicate, order independence, parse exact-or-error; one call per case compared with the model and with the specification through vm_compute; non-mutation checked by the harness",
        n=dict(quick=2500, thorough=5000), shards=dict(quick=2, thorough=24),
        kinds={
            1: dict(cls="corr", props=["C18"], what="resources model and implementation disagree"),
            2: dict(cls="oracle", props=["C18"], what="result differs from the arbitrary-precision / component-wise specification"),
            3: dict(cls="known", props=["C18"], finding="C18-subelim-left-negative", what="SubEliminateNegative / SubErrorNegative keep a negative value of a type only the left operand has"),
            4: dict(cls="oracle", props=["C18"], what="an argument (or resources.Zero) was modified, or the result aliases an argument"),
            5: dict(cls="oracle", props=["C18"], what="the implementation panicked"),
        },
    ),
}

PROPS = {
    "C18": dict(engines=["res"], props_file="Props/C18.v", checkers=["Oracles/ResCheck.v"],
                coq_scan=["Base", "Generated/Quantity.v", "Oracles/ResCheck.v", "Props/C18.v"], level="proof",
                explanation="122 Coq theorems about the executable model of resources.go / quantity.go (calculators equal the clamped exact result; every vector operation and predicate equals its component-wise definition at every key, for all key sets, all int64 values, nil and empty; results do not depend on map iteration order; parse returns number x multiplier exactly or an error). The same right-hand sides are evaluated as oracles on the results of the real code for every generated call; non-mutation and panics are observed by the harness. The multiplier table and the regexp text are re-extracted from quantity.go on every run and must equal the modelled ones (proof obligation by reflexivity).",
                manifest=dict(
                    category="proof",
                    text="Coq theorems (no axioms): addVal/subVal/mulVal of the model (Go wrap-around arithmetic and the code's own overflow tests) equal clamp of the exact sum/difference/product for all int64 operands; mulValRatio always returns an int64 and equals clamp(trunc(binary64 product)) for every value and every non-NaN ratio (canonicity of SpecFloat's rounding/product/int conversion re-proved without Flocq); for Add, Sub, AddTo, SubFrom, SubOnlyExisting, AddOnlyExisting, SubEliminateNegative, SubErrorNegative, Multiply, ComponentWiseMin(OnlyExisting), ComponentWiseMax, MergeIfNotPresent, Prune the lookup of the result at every key is the stated component-wise function of the operands' lookups (value and key set), well-formedness and int64 range are preserved; the DOCUMENTED behaviour of SubEliminateNegative/SubErrorNegative (every negative value reset to 0, error iff some value was negative) is refuted for a type only the left operand has (recorded known finding) and proved outside that window; FitIn/FitInMaxUndef/FitInActual, StrictlyGreaterThan(OrEquals)(OnlyExisting), Equals, DeepEquals, EqualsOrEmpty, IsZero, MatchAny, HasNegativeValue, StrictlyGreaterThanZero equal their forall-k definitions with the documented treatment of missing types; all are invariant under permutation of the association lists (Go map order) and total on nil; parse(s, milli) = Ok v iff the trimmed string is digits+ \\s* suffix with suffix in the extracted multiplier table and v = number x multiplier (x1000 for milli without m) within int64, any other string is an error. The model is tied to the Go code by a correspondence run on every invocation (every exported function, the four calculators and parse; model result and specification oracle both compared with the implementation; arguments checked for non-mutation and non-aliasing by the harness).",
                    note="theorems are about the hand-written Gallina model coq/Base (Int64.v, F64.v, Res.v, ResMore.v, Quantity.v); the tie to the code is differential (one call per case, generators reach the int64 extremes, nil/empty/aliased arguments, unicode and malformed UTF-8 strings); 'never modify their arguments' is not expressible for a pure function and is decided by the harness only; float helper functions (getFairShare, compareShares, CompUsageRatio*, FitInScore, FairnessRatio, CalculateAbsUsedCapacity, DominantResourceType) are covered by model/implementation correspondence only; amd64 float->int conversion and absence of FMA contraction are trusted; kernel + vm_compute trusted",
                    technique="Coq proof over an executable model + model/implementation correspondence + specification oracles on implementation results"),
                assumptions=["all quantities are int64 values (in_range) and resource vectors have no duplicate keys (every Go map)",
                             "mulValRatio / MultiplyBy: the ratio is not NaN (NaN: platform conversion result, correspondence only)",
                             "float64 semantics of amd64 Go: round to nearest even, no fused multiply-add, out-of-range float->int64 conversion yields MinInt64"]),
}
