"""engine reload (property C16): core histories with frequent configuration reloads; the cases additionally carry
the queue trees of the world's configurations and the queue properties per observed state.
Kinds are 16xx (see core_kinds_c16.json): 1..49 oracle, 50..89 known-finding windows, 90..99 correspondence."""
import json
import os

_HERE = os.path.dirname(os.path.abspath(__file__))
import glob
_WHAT = {}
_KNOWN = {}
# the reload engine also serves other properties' checkers (e.g. C02 against the configured maximum): all core kind tables
for _f in sorted(glob.glob(os.path.join(_HERE, "core_kinds*.json"))):
    _D = json.load(open(_f))
    _WHAT.update({int(k): v for k, v in _D.get("what", {}).items()})
    _KNOWN.update({int(k): v for k, v in _D.get("known", {}).items()})


def _classify(kind):
    p = "C%02d" % (kind // 100)
    sub = kind % 100
    what = _WHAT.get(kind, "reload oracle kind %d" % kind)
    if sub >= 90:
        return {"class": "corr", "props": [p], "what": what}
    if sub >= 50:
        return {"class": "known", "props": [p], "finding": _KNOWN.get(kind, "unlisted-%d" % kind), "what": what}
    return {"class": "oracle", "props": [p], "what": what}


ENGINES = {
    "reload": dict(
        path="harness/core_reload.go (with harness/core_types.go core_drive.go core_gen.go core_emit.go) coq/Core/Reload*.v coq/Oracles/CoreC16.v coq/Props/C16.v",
        about="histories of SI requests, scheduling cycles and frequent configuration reloads against the real ClusterContext; queue trees of all configurations and queue properties per state handed to Coq; reload/cleaning model recomputed from every observed pre-state and compared, C16 predicates evaluated on the observations",
        n=dict(quick=20, thorough=120), shards=dict(quick=1, thorough=6), search_shards=2,
        kinds={}, classify=_classify, index_div=1000,
    ),
}
PROPS = {
    "C16": dict(
        engines=["reload"], props_file="Props/C16.v", checkers=["Oracles/CoreC16.v", "Oracles/CoreC16Progress.v"],
        checker_fns={"reload": "Oracles.CoreC16Progress:c16_all_check"},
        coq_scan=["Core/Reload.v", "Core/ReloadSpec.v", "Core/ReloadProofs.v", "Core/ReloadProofs2.v", "Core/Obs.v", "Oracles/CoreC16.v", "Oracles/CoreC16Progress.v", "Props/C16.v", "Base"],
        level="proof",
        assumptions=[
            "queue trees are well formed (tree_okb): one child per name, only the root has no parent, queue states are Active/Draining/Stopped",
            "sibling queue names of a configuration are distinct and no queue below root is named root (guaranteed by configuration validation)",
            "property keys and values are ASCII (strings.ToLower modelled on ASCII)",
            "one partition; ACLs, child templates, durations, quota preemption timers, user/group limits and placement rule replacement are not part of the reload model",
        ],
        manifest=dict(
            category="proof",
            text="Coq theorems over a queue-tree model of updatePartitionDetails/updateQueues/cleanQueues: a rejected reload is decided before the first write and the update cannot fail midway; for every tree and configuration an accepted reload keeps every queue's ledgers, application set and position, gives every configured queue the configured limits and the merged (inherited) properties, drains managed queues missing from the configuration, reactivates listed ones; a draining queue takes no new application; cleaning removes only empty draining or dynamic queues. 'Existing applications keep running' is refuted for a leaf configured as parent (known finding 19). The same predicates are evaluated on every reload, cleaning and submit step of generated histories of the real scheduler, and the model's post tree is compared with the observed one",
            note="theorems are about the hand-written Gallina model (coq/Core/Reload.v); tie to the code is differential (every observed reload/cleaning transition is recomputed by the model); ACLs, templates, ugm limits and multi-partition atomicity are out of the model",
            technique="Coq proof over a Gallina queue-tree model + model/implementation correspondence + oracle on observations"),
    ),
}
