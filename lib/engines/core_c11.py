"""C11 (max-applications gate) served by the core engine: oracle Oracles/CoreC11.v, component model Core/MaxApps.v"""
ENGINES = {}
PROPS = {
    "C11": dict(
        engines=["core"], props_file="Props/C11.v", checkers=["Oracles/CoreC11.v"],
        checker_fns={"core": "Oracles.CoreC11:c11_check_all"},
        variants=["maxapps", "maxappsdeep", "preemptdeep", "gang", "", "reload", "gangdeep"],
        coq_scan=["Core/MaxApps.v", "Core/MaxAppsProofs.v", "Oracles/CoreC11.v", "Props/C11.v", "Core/Obs.v", "Base"],
        level="proof",
        assumptions=[
            "a queue's ancestors are fixed when it is created and an application never changes its queue (the model stores the leaf-to-root id list with the application)",
            "running_le_max as an invariant needs: no reload/tag lowers maxapplications below the current running count (refuted without it, running_le_max_refuted); the step form running_le_max_step needs no hypothesis",
            "gate_sound covers the Accepted state (the only not-yet-running state canRunApp is applied to); Resuming/Failing applications are not gated by the code (gate_other_states_refuted)",
        ],
        manifest=dict(
            category="proof",
            text="Coq theorems over a component model of the queue admission counters (canRunApp recursive with allocatingAcceptedApps, incRunningApps clamp, decRunningApps floor, setAllocatingAccepted, RemoveApplication, application FSM callbacks): gate_sound, running_le_max (step form unconditional, invariant form under a stated no-lowering hypothesis, refuted without), running_le_actual, allocating_live, empty_zero as invariants over all operation sequences; the same predicates are evaluated on every observed state/scheduling step of the real ClusterContext and every observed counter change is re-derived from the model's writers (correspondence kind 1190)",
            note="theorems are about the hand-written Gallina model (coq/Core/MaxApps.v); the tie to the Go code is the correspondence run of the core engine; one defect found and fixed (allocatingAcceptedApps leak on ancestors)",
            technique="Coq invariant proofs + oracle and model correspondence on implementation observations"),
    ),
}
