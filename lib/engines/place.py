"""engine place: placement rules, ACLs, queue creation on application submission (C17)"""
ENGINES = {
    "place": dict(
        path="harness/place.go harness/place_gen.go coq/Place coq/Oracles/PlaceCheck.v coq/Props/C17.v",
        about="Gallina model of AppPlacementManager.PlaceApplication, the four placement rules with parent rules and filters, ACL parsing/check, PartitionContext.AddApplication/createQueue; specification of C17 as boolean predicates; theorems for all worlds; correspondence through vm_compute",
        n=dict(quick=700, thorough=1000), shards=dict(quick=1, thorough=8),
        kinds={
            1: dict(cls="corr", props=["C17"], what="placement model and implementation disagree (outcome, resulting hierarchy or ACL answers)"),
            2: dict(cls="oracle", props=["C17"], what="accepted application is not in a leaf, active, ACL-admitted queue chosen by the first usable rule, or a queue was created without create/valid name/non-leaf parent/template"),
            3: dict(cls="oracle", props=["C17"], what="recovery queue (or a queue below it) used by an application that is not force-created"),
            4: dict(cls="oracle", props=["C17"], what="application that no rule can place was not rejected with 'no placement rule matched' leaving the hierarchy unchanged (or the submission panicked)"),
        },
    ),
}

PROPS = {
    "C17": dict(engines=["place"], props_file="Props/C17.v", checkers=["Oracles/PlaceCheck.v"],
                coq_scan=["Place", "Oracles/PlaceCheck.v", "Props/C17.v"], level="proof",
                manifest=dict(category="proof",
                              text="Coq theorems over a Gallina model of PlaceApplication/AddApplication for every queue hierarchy, rule chain, user/group set, tag map and requested name: an accepted application is in a leaf, non-draining queue chosen by the first rule (configured order) whose result it can use, admitted by a submit/admin ACL on the way to the root; queues are created only with create enabled on every level of the rule chain, valid names, under a non-leaf parent, with the parent's child template; the recovery queue is used by force-created applications only (refuted for the pinned code, proved after the fix); an application no rule can place is rejected with 'no placement rule matched' and nothing changes; no panic. Model tied to the Go code by a correspondence run on every invocation",
                              note="theorems are about the hand-written Gallina model (coq/Place); tie to the code is differential (generated worlds driven through the real configuration path and PartitionContext.AddApplication); regular expressions of filters are harness-supplied tables; ASCII names; kernel + vm_compute trusted",
                              technique="Coq proof (induction over rule list, rule nesting and queue path) + model/implementation correspondence"),
                assumptions=["queue, user, group and tag names are ASCII (strings.ToLower/EqualFold modelled on ASCII)",
                             "application tags do not contain two keys that differ only in letter case (Go map iteration order would decide)",
                             "the request carries at least one group (no OS/LDAP group resolution), active partition, fresh application id, no placeholder ask, no resource tags",
                             "queue hierarchy closed under parents (wf_tree): holds for every hierarchy built from a configuration and is preserved by AddApplication (proved)"]),
}
