"""engine ugm: user/group manager (C05)"""
ENGINES = {
    "ugm": dict(
        path="harness/ugm.go harness/ugm_gen.go coq/Ugm coq/Oracles/UgmCheck.v coq/Props/C05.v",
        about="Gallina model of ugm.Manager / UserTracker / GroupTracker / QueueTracker, enforcement and conservation theorems, reload exactness refuted + partial, step-wise correspondence and oracles through vm_compute",
        n=dict(quick=100, thorough=1500), shards=dict(quick=1, thorough=4),
        kinds={
            1: dict(cls="corr", props=["C05"], what="ugm model and implementation disagree on a Manager call (state after the call or returned value), for every map iteration order"),
            2: dict(cls="oracle", props=["C05"], what="a scheduler-decided increase pushed user/group usage over a configured limit"),
            3: dict(cls="oracle", props=["C05"], what="a scheduler-decided increase admitted an application beyond max applications"),
            4: dict(cls="oracle", props=["C05"], what="tracked usage differs from the sum of live allocations"),
            5: dict(cls="oracle", props=["C05"], what="limit in force differs from the latest configuration"),
            6: dict(cls="oracle", props=["C05"], what="UpdateConfig panicked"),
            14: dict(cls="known", props=["C05"], finding="C05-group-reset-usage", what="group usage after a dropped group limit"),
            17: dict(cls="known", props=["C05"], finding="C05-reload-order", what="reload outcome depends on map iteration order"),
            20: dict(cls="known", props=["C05"], finding="C05-lost-named-limit", what="named limit lost below a dropped ancestor limit"),
        },
    ),
}

PROPS = {
    "C05": dict(engines=["ugm"], props_file="Props/C05.v", checkers=["Oracles/UgmCheck.v"],
                coq_scan=["Ugm", "Oracles/UgmCheck.v", "Props/C05.v"], level="proof",
                manifest=dict(category="proof", text="TODO", note="TODO", technique="Coq invariant proofs + model/implementation correspondence"),
                assumptions=[]),
}
