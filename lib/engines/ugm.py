"""engine ugm: user/group manager (C05)"""
ENGINES = {
    "ugm": dict(
        path="harness/ugm.go harness/ugm_gen.go coq/Ugm coq/Oracles/UgmCheck.v coq/Props/C05.v",
        about="Gallina model of ugm.Manager / UserTracker / GroupTracker / QueueTracker, enforcement and conservation theorems, reload exactness refuted + partial, step-wise correspondence and oracles through vm_compute",
        n=dict(quick=100, thorough=1000), shards=dict(quick=1, thorough=4),
        kinds={
            1: dict(cls="corr", props=["C05"], what="ugm model and implementation disagree on a Manager call (state after the call or returned value), for every map iteration order"),
            2: dict(cls="oracle", props=["C05"], what="a scheduler-decided increase pushed user/group usage over a configured limit"),
            3: dict(cls="oracle", props=["C05"], what="a scheduler-decided increase admitted an application beyond max applications"),
            4: dict(cls="oracle", props=["C05"], what="tracked usage differs from the sum of live allocations"),
            5: dict(cls="oracle", props=["C05"], what="limit in force differs from the latest configuration"),
            6: dict(cls="oracle", props=["C05"], what="UpdateConfig panicked"),
            14: dict(cls="known", props=["C05"], finding="C05-group-reset-usage", what="group usage after a dropped group limit"),
            17: dict(cls="known", props=["C05"], finding="C05-reload-order", what="reload outcome depends on map iteration order"),
            20: dict(cls="known", props=["C05"], finding="C05-lost-named-limit", what="named limit lost below a dropped ancestor limit"),
        },
    ),
}

PROPS = {
    "C05": dict(engines=["ugm"], props_file="Props/C05.v", checkers=["Oracles/UgmCheck.v"],
                coq_scan=["Ugm", "Oracles/UgmCheck.v", "Props/C05.v"], level="proof",
                manifest=dict(category="proof",
                              text="Coq theorems over an executable Gallina model of ugm.Manager/UserTracker/GroupTracker/QueueTracker: headroom_sound and canrun_sound (an Increase whose ask fits Manager.Headroom / whose application passed Manager.CanRunApp keeps usage <= limit and running applications <= max applications on every queue of the path, user and resolved group), usage_is_sum (+ back to zero) by an invariant over every paired Increase/Decrease/Headroom/CanRunApp history without reload, group_stable, limits_stable (limits in force stay those of the configuration until the next reload, nested queues included), reload_exact_partial (first load into a fresh manager of a configuration with its limits on the root queue + any reload-free history); reload exactness, conservation across reloads and reload determinism are REFUTED by witnesses that are known findings (lost named limit, group usage reset, map-order dependence); model tied to the Go code by a step-wise correspondence run (model step from the implementation's previous state = implementation's next state) and the property's own predicates evaluated on the implementation's states on every invocation",
                              note="theorems are about the hand-written Gallina model (coq/Ugm); the tie to the code is differential (generated histories <= 40 calls, 3 users x 3 groups x queue depth 3, reloads derived from the previous configuration); usage/enforcement theorems assume int64-range values without duplicate resource types on the path (path_wf / hist_all_ok), conservation starts from a state without usage whose configured groups have trackers with a real limit (decidable: inv0b); reload_exact holds only on the stated class; three recorded known findings keep the configuration/conservation clauses false on particular reload sequences; kernel + vm_compute trusted",
                              technique="Coq invariant proofs + refutation witnesses + model/implementation correspondence with Gallina oracles"),
                assumptions=["resource quantities and all partial sums of a history stay within int64 (hist_all_ok / path_wf), no duplicate resource types in one vector",
                             "applications keep one user, one group list and one queue path; removeApp is passed exactly with the release of everything the application holds (what Application.removeAllocation does outside the Failing/placeholder corner owned by C03/C06)",
                             "UpdateConfig's Go map iteration order: the model accepts any order of the group resets (<= 5 resets enumerated) and the two extreme orders of the other phases",
                             "queue names are interned so that strings.ToLower corresponds to qlower (harness/ugm.go ugmQName)"]),
}
