"""C10 (application life cycle) - builder proto; pinned reproducers: corpus/core_c10.json"""
ENGINES = {}

_NOTE = ("the transition table is extracted on every run from the real fsm object (harness/extract_fsm.go: SetState x Can/Event over all 10 states and 6 events) "
         "into Generated/AppFsm.v; the theorems are about that table and about the model of HandleApplicationEvent / the release path "
         "(coq/Core/AppLife.v, AppEvents.v); the oracle evaluates the same relation on every observed state log, application-update stream and "
         "release transition of the real scheduler; ledger clauses (Completed is clean, idle completes) are oracle clauses with two recorded findings")
PROPS = {
    "C10": dict(engines=["core"], props_file="Props/C10.v", checkers=["Oracles/CoreC10.v"],
                checker_fns={"core": "Oracles.CoreC10:c10_check_all"},
                variants=["gangdeep", "gang", "", "preemptdeep"], coq_scan=["Core/AppLife.v", "Core/AppLifeProofs.v", "Core/AppEvents.v", "Core/AppEventsProofs.v", "Oracles/CoreC10.v", "Props/C10.v", "Generated/AppFsm.v", "Core/Obs.v", "Base"], level="proof",
                assumptions=["looplab/fsm v1.0.3 Event semantics (unknown (state,event) leaves the state; same-state transition returns NoTransitionError and records nothing) as re-stated in Core/AppLife.handle_event",
                             "application ids may be re-used after termination; the update stream of an id restarts at its next accepted answer"],
                manifest=dict(category="proof", text="Coq: every transition of the REAL application state machine (table extracted by exhaustive enumeration of objects.NewAppState on every run) is a documented move and every documented move exists (fsm_documented); for every sequence of events from New the visited states, the state log and the reported state follow the documented life cycle (trace_documented), terminal states only expire; release-path model of the state decisions (removeAllocationInternal / removeAsksInternal) with the Completed-with-live-allocation defect exhibited as a refuted clause. Oracle on every observed history: state logs and UpdatedApplication streams are documented chains, Completed applications are clean (own lists and every node), idle applications complete, terminated applications leave their queue and reject asks",
                              note=_NOTE, technique="translator (exhaustive FSM enumeration) + Coq proof over the generated table + oracle on implementation histories")),
}
