"""engine recover (property C12): two executions per case - a generated core history stopped at a random step, the
shim's knowledge read from the observation and replayed in a random admissible order on a fresh core, followed by
scheduling cycles. Kinds are 12xx (see core_kinds_c12.json): 1..49 oracle, 50..89 known-finding windows, 90..99 correspondence."""
import json
import os

_HERE = os.path.dirname(os.path.abspath(__file__))
_D = json.load(open(os.path.join(_HERE, "core_kinds_c12.json")))
_WHAT = {int(k): v for k, v in _D.get("what", {}).items()}
_KNOWN = {int(k): v for k, v in _D.get("known", {}).items()}


def _classify(kind):
    p = "C%02d" % (kind // 100)
    sub = kind % 100
    what = _WHAT.get(kind, "recover oracle kind %d" % kind)
    if sub >= 90:
        return {"class": "corr", "props": [p], "what": what}
    if sub >= 50:
        return {"class": "known", "props": [p], "finding": _KNOWN.get(kind, "unlisted-%d" % kind), "what": what}
    return {"class": "oracle", "props": [p], "what": what}


ENGINES = {
    "recover": dict(
        path="harness/core_recover.go (with harness/core_types.go core_drive.go core_gen.go core_emit.go) coq/Core/Recover*.v coq/Oracles/CoreC12.v coq/Props/C12.v",
        about="two executions: a generated history on core A stopped at a random step; nodes, applications (force-create), bound allocations incl. placeholders, foreign allocations and outstanding asks read from A's observation and replayed in a random admissible order on a fresh core B, then scheduling cycles; B's totals compared with A's and with the totals the ledger model computes from the knowledge",
        n=dict(quick=70, thorough=600), shards=dict(quick=1, thorough=4), search_shards=2,
        kinds={}, classify=_classify, index_div=1000,
    ),
}
PROPS = {
    "C12": dict(
        engines=["recover"], props_file="Props/C12.v", checkers=["Oracles/CoreC12.v"],
        checker_fns={"recover": "Oracles.CoreC12:c12_check_all"},
        coq_scan=["Core/Recover.v", "Core/RecoverProofs.v", "Core/Ledger.v", "Core/Obs.v", "Oracles/CoreC12.v", "Props/C12.v", "Base"],
        level="proof",
        assumptions=[
            "replayed items have distinct node ids, application ids and allocation keys; resources are strictly positive int64 maps (replay_wf) - checked per case (kind 1294)",
            "every total fits int64 (bounded) - checked per case",
            "the comparison with the old core assumes the old core's own books agree with its allocations and asks (conservation, C03/C05); otherwise only the comparison with the totals computed from the shim's knowledge is made",
            "crash points with an in-flight placeholder swap: the pending totals are compared with the shim's knowledge (the real ask is pending again), all other totals with the old core",
            "the shim re-submits each live application with its original request plus the force-create tag; same configuration before and after the restart",
        ],
        manifest=dict(
            category="proof",
            text="Coq theorems over a ledger model of the recovery branches of UpdateAllocation: every replayed item is accepted (no quota check exists on these branches) and contributes additively, so any admissible replay order ends with exactly the totals computed from the shim's knowledge; those equal the old core's totals when no placeholder swap was in flight, and otherwise differ only in the pending totals. Checked against the implementation by a two-execution run: core A stopped at a random point, replay in a random admissible order on a fresh core B, per-node/queue/application/user totals of B compared with A and with the model, then scheduling cycles on B under books-agree and capacity checks",
            note="theorems are about the hand-written Gallina ledger model (coq/Core/Recover.v); placement of re-submitted applications, application states and reservations are not in the model (the oracle compares queue and user of every application directly); tie to the code is differential",
            technique="Coq proof over a Gallina ledger model + two-execution model/implementation correspondence"),
    ),
}
