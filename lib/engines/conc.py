"""engine conc: the scheduler core driven from several goroutines at once (C14, partial by nature).

(c) atomicity: the lock wrapper also reports the SPLIT critical sections of every run (inside one invocation of a method the
    lock of its object is released and taken again in write mode); they are compared with the reviewed baseline
    corpus/conc_split_baseline.json (kind 1420 for a new one; theorem Conc/AtomicProofs.v: no split section => serialisable);
    the window between the two parts of a split section is widened by seed-driven sleeps; targeted workloads (queue
    ledgers with RM-side increments / decrements, a tight queue maximum, first use of many users) with strict final-state
    predicates.

(a) lock-order: the lock wrapper of pkg/locking (build tag verif) traces every lock nesting of the run; the instance-level
    relation is emitted as a Coq term and `acyclic E` is evaluated by vm_compute (theorem: Conc/LockOrderProofs.v).
(b) validation: watchdog for blocked goroutines, recovered panics / fatal runtime errors, go-deadlock reports on a share of
    the runs, accounting predicates of C01/C03 on the final state after quiescence, race detector in the thorough tier.
"""
ENGINES = {
    "conc": dict(
        path="harness/conc.go harness/conc_emit.go harness/conc_split.go coq/Conc coq/Oracles/ConcCheck.v coq/Props/C14.v corpus/conc_split_baseline.json",
        about="concurrent stress runs of the real ClusterContext (goroutine structure of the Scheduler service, REST readers, reloads, timers) with traced lock nesting and traced split critical sections; Coq decides acyclicity of the traced relation, compares the split sections with the reviewed baseline and evaluates the C01/C03/C05 predicates on the final state",
        n=dict(quick=36, thorough=240), shards=dict(quick=1, thorough=2), search_shards=1,
        kinds={
            1401: dict(cls="oracle", props=["C14"], what="lock-order inversion: the traced lock nesting relation has a cycle (potential deadlock); the replay lists the cycle with object labels and both call stacks per edge"),
            1402: dict(cls="oracle", props=["C14"], what="after quiescence a node ledger disagrees with the allocations the node lists"),
            1403: dict(cls="oracle", props=["C14"], what="a goroutine was left blocked: not all driver goroutines finished before the watchdog deadline (goroutine dump in the replay)"),
            1404: dict(cls="oracle", props=["C14"], what="go-deadlock reported a potential deadlock during the run"),
            1405: dict(cls="oracle", props=["C14"], what="a goroutine panicked or the run died with a fatal runtime error (e.g. concurrent map access)"),
            1406: dict(cls="oracle", props=["C14"], what="the Go race detector reported a data race (thorough tier)"),
            1411: dict(cls="oracle", props=["C14"], what="after quiescence an application ledger is not the sum of its allocations / asks"),
            1412: dict(cls="oracle", props=["C14"], what="after quiescence a queue ledger is not the sum over its applications (leaf) / children (parent): lost update (ledger workload, or a run without trigger operation)"),
            1413: dict(cls="oracle", props=["C14"], what="after quiescence a node lists an allocation no live application lists, root allocated differs from the node totals, or ledgers are not back to zero with no application left (ledger workload, or a run without trigger operation)"),
            1414: dict(cls="oracle", props=["C14"], what="after quiescence an application lists an allocation its node does not list"),
            1420: dict(cls="corr", props=["C14"], what="a split critical section that is not in the reviewed baseline (corpus/conc_split_baseline.json): inside one invocation of a function the lock of an object was released and taken again in write mode (candidate for check-then-act / lost update); the replay lists function, object class, both call stacks"),
            1421: dict(cls="oracle", props=["C14"], what="after quiescence the usage the user/group manager tracks for a user on a leaf queue differs from the sum over the user's applications there, or an application with usage is not tracked (lost tracker / lost update)"),
            1422: dict(cls="oracle", props=["C14"], what="after quiescence the usage tracked for a user on a parent queue path differs from the sum over the tracked child paths"),
            1423: dict(cls="oracle", props=["C14"], what="after quiescence tracked usage is negative, the running-application set of a user on a leaf queue is wrong, or (first-use workload) the usage tracked for a group differs from the sum over the applications of its users"),
            1424: dict(cls="oracle", props=["C14"], what="after quiescence a queue whose usage only grows through the scheduler's limit check is above its configured maximum"),
            1450: dict(cls="known", props=["C14"], finding="C14-alloc-leak-app-removed", what="known: allocation booked on a node while its application is being removed stays on the node (node id of the allocation still unset)"),
            1451: dict(cls="known", props=["C14"], finding="C14-concurrent-ledger-drift", what="known: after quiescence a queue ledger / node allocation list disagrees with the live applications (application removal, release, update or reload racing with the scheduling loop)"),
            1452: dict(cls="known", props=["C14"], finding="C14-ugm-tracker-removed-in-use", what="known: the release of a user's last allocation removed the user (or group) tracker while another goroutine was booking an allocation of the same user on it: tracked usage below the sum over the applications (run in which user trackers can become empty)"),
            1490: dict(cls="corr", props=["C14"], what="the harness' cycle search and the Coq acyclicity check disagree"),
            1491: dict(cls="corr", props=["C14"], what="the critical-section monitor of the lock wrapper was not available in the run (frame pointer walk failed its start-up comparison with runtime.Callers)"),
        },
    ),
}

PROPS = {
    "C14": dict(
        engines=["conc"], props_file="Props/C14.v", checkers=["Oracles/ConcCheck.v"],
        coq_scan=["Conc", "Oracles/ConcCheck.v", "Props/C14.v", "Core/Ledger.v", "Core/Obs.v", "Base/Res.v"], level="other",
        assumptions=[
            "the lock-order theorem is about the nesting relation OBSERVED in the runs of this invocation: a nesting no workload exercised is not in it",
            "only locks taken through pkg/locking are traced (all scheduler objects); channels, sync.Cond, WaitGroup, atomic spins and raw sync.Mutex are outside the machine",
            "read and write acquisitions of an RWMutex are treated alike (conservative)",
            "atomicity: split critical sections are detected for a method working on the lock of its own kind of object, from the frames seen at lock operations (two consecutive invocations from one call site without a lock operation in between cannot be told apart); the baseline of split sections of the unchanged tree (corpus/conc_split_baseline.json) was reviewed by hand; a split section on a path no workload exercises is not seen",
            "single partition, single RM; goroutine structure of pkg/scheduler/scheduler.go reproduced by the harness (application and allocation events share one goroutine)",
        ],
        trusted_extra=[
            "pkg/locking/locking_verif.go (tracing wrapper: one edge from every lock still held by the goroutine to the requested lock; goroutine id read from the runtime's g at an offset probed at start-up)",
            "pkg/locking/locking_verif_sections.go (critical-section monitor: frame pointer walk compared with runtime.Callers at start-up; split = same lock released and requested again in write mode inside one frame at two different program counters)",
            "corpus/conc_split_baseline.json (hand-reviewed list of the split critical sections of the unchanged tree)",
            "object labels in replays come from walking the scheduler objects; they do not enter the check",
        ],
        explanation="PARTIAL: Coq theorem (unbounded: any number of threads and locks, any grant rule) that an acyclic lock nesting relation excludes wait-for cycles and guarantees progress, applied to the relation traced from the real scheduler on every run (coverage-bounded input); Coq theorem (any number of threads, any schedule) that read-modify-write operations without a split critical section are serialisable (no lost update, a guard checked inside the section is an invariant; refuted for split sections by a two-thread schedule), applied through the split sections traced on every run and a hand-reviewed baseline of the ones that exist on the unchanged tree; accounting predicates of C01/C03 evaluated on the final state of every stress run, watchdog, panic and go-deadlock observation, race detector in the thorough tier: all validation. Absence of data races and of blocked goroutines under every interleaving is NOT shown.",
        manifest=dict(
            category="other",
            text="partial: (a) Coq theorem acyclic_no_deadlock / acyclic_progress for an abstract lock machine with any number of threads and locks (threads constrained only by a nesting relation E; RW locks treated as exclusive), with `acyclic E = true` decided by vm_compute on the instance-level relation E traced from the real scheduler by a build-tagged lock wrapper on every run - a proof about the OBSERVED nesting relation (coverage-bounded input, unbounded theorem); a cycle is reported with object labels and both call stacks; (c) Coq theorem nosplit_serializable for a second abstract machine (threads, one reader/writer lock, the variable it protects, invocations of lock / unlock / read / check / store instructions): lock discipline and no SPLIT critical section (lock released and taken again in write mode inside one invocation) imply that every reachable value is the result of some serial order of the invocations (sum of increments, guard invariant), with the split-section relation computed on the real code by the lock wrapper on every run and compared with a hand-reviewed baseline of 32 (method, object class) pairs (corpus/conc_split_baseline.json; a new one is reported); windows between the two parts of a split section are widened by seed-driven sleeps; (b) validation only: concurrent stress runs (goroutine structure of the real service, REST readers, reloads, timers, seed-driven yields; targeted workloads: queue ledgers with RM-side increments and decrements, a tight queue maximum, first use of many users at the same moment), watchdog for blocked goroutines, panics / fatal runtime errors, go-deadlock on a share of the runs, C01/C03 accounting predicates and the C05 usage predicates on the final state after quiescence, Go race detector in the thorough tier. Absence of data races and of blocked goroutines under every interleaving is NOT shown.",
            note="theorems are about the abstract machines of coq/Conc/LockOrder.v and coq/Conc/Atomic.v; the tie to the code is the traced relation / the traced split sections (pkg/locking/locking_verif.go, locking_verif_sections.go, build tag verif) and is only as complete as the workloads; the baseline of benign split sections is a manual review; final-state predicates are the ones of Core/Ledger.v (C01/C03); kernel + vm_compute trusted",
            technique="Coq lock-order theorem over a traced nesting relation + Coq serialisability theorem over traced split critical sections + concurrent stress validation",
        ),
    ),
}
