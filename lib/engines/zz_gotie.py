"""Source-to-Gallina translator ties (harness/gotrans*.go -> coq/Generated/Go*.v, regenerated from /repo on every run):
per property, the file of tie theorems `generated definition = hand-written model definition, for all inputs`
(Props/GoTieCnn.v) is an additional property file, so a semantic edit of a translated Go function breaks a proof
obligation of exactly the properties whose models are tied to it. Builder: gotrans (notes/gotrans.md)."""
ENGINES = {}
_G3 = ["Generated/GoPrelude.v", "Generated/GoResources.v", "Generated/GoObjects.v"]
PROPS = {
    "C18": dict(extra_props=["Props/GoTieC18.v"], coq_scan=["Generated/GoPrelude.v", "Generated/GoResources.v", "Base/GoTieLib.v", "Base/GoTieCalc.v", "Base/GoTieRep.v", "Base/GoTieClone.v", "Base/GoTieRes.v", "Base/GoTieMul.v", "Base/GoTieFit.v", "Base/GoTieShare.v", "Base/GoTiePred.v", "Base/GoTieCw.v", "Props/GoTieC18.v"]),
    "C20": dict(extra_props=["Props/GoTieC20.v"], coq_scan=["Generated/GoPrelude.v", "Generated/GoEvents.v", "Base/GoTieLib.v", "Events/GoTieRing.v", "Props/GoTieC20.v"]),
    "C19": dict(extra_props=["Props/GoTieC19.v"], coq_scan=_G3 + ["Base/GoTieLib.v", "Sort/GoTieSort.v", "Props/GoTieC19.v"]),
    "C11": dict(extra_props=["Props/GoTieC11.v"], coq_scan=_G3 + ["Base/GoTieLib.v", "Core/GoTieC11.v", "Props/GoTieC11.v"]),
    "C09": dict(extra_props=["Props/C09d.v", "Props/C09e.v", "Props/GoTieC09.v"], coq_scan=_G3 + ["Base/GoTieLib.v", "Core/GoTieC09.v", "Props/GoTieC09.v", "Props/C09d.v", "Core/Model.v", "Core/Model2.v", "Core/Model4.v", "Core/Ledger.v"] + ["Core/Model4Proofs%s.v" % x for x in ["F", "N", "N2", "G", "B", "B2", "R1", "R2", "R3", "R4", "R5", "R6", "R7", "R8", "R9", "R10", "R11", "R12", "Ex", "ExN", "Br1", "Br2", "Br3", "Br4", "Br5", "Br6"]] + ["Props/C09e.v"]),
    "C07": dict(extra_props=["Props/GoTieC07.v"], coq_scan=_G3 + ["Base/GoTieLib.v", "Core/GoTieC07.v", "Props/GoTieC07.v"]),
    "C05": dict(extra_props=["Props/GoTieC05.v"], coq_scan=["Generated/GoPrelude.v", "Generated/GoResources.v", "Generated/GoUgm.v", "Base/GoTieLib.v", "Base/GoTieRep.v", "Base/GoTieClone.v", "Base/GoTieRes.v", "Base/GoTiePred.v", "Base/GoTieCw.v", "Core/GoTieC05.v", "Props/GoTieC05.v"]),
    "C01": dict(extra_props=["Props/C01c.v", "Props/C01d.v", "Props/GoTieC01.v"], coq_scan=_G3 + ["Props/C01c.v", "Props/C01d.v", "Props/GoTieC01.v"]),
    "C02": dict(extra_props=["Props/GoTieC02.v"], coq_scan=_G3 + ["Props/GoTieC02.v"]),
    "C03": dict(extra_props=["Props/C03c.v", "Props/C03d.v", "Props/C03e.v", "Props/GoTieC03.v"], coq_scan=_G3 + ["Props/C03c.v", "Props/C03d.v", "Props/C03e.v", "Props/GoTieC03.v"]),
}
