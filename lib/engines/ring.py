"""engine ring: event ring buffer, event store, stream bridging (C20)"""
# kind numbers are engine specific
ENGINES = {
    "ring": dict(
        path="harness/ring.go harness/stream.go coq/Events coq/Oracles/RingCheck.v coq/Props/C20.v", about="Gallina model of eventRingBuffer/EventStore/stream bridge, refinement theorems, correspondence through vm_compute",
        n=dict(quick=300, thorough=4000), shards=dict(quick=1, thorough=4),
        kinds={
            1: dict(cls="corr", props=["C20"], what="ring/store/stream model and implementation disagree"),
            2: dict(cls="oracle", props=["C20"], what="history result differs from the gap-free range specification"),
            3: dict(cls="known", props=["C20"], finding="C20-stream-window", what="stream known window"),
        },
        sections=[("ring", 0), ("store", 100000), ("stream", 200000)],
    ),
}

PROPS = {
    "C20": dict(engines=["ring"], props_file="Props/C20.v", checkers=["Oracles/RingCheck.v"], coq_scan=["Events", "Oracles/RingCheck.v", "Props/C20.v"], level="proof",
                manifest=dict(category="proof", text="Coq theorems: the ring-buffer model refines the abstract history specification (gap-free id range, most recent events retained across resizes) for every sequence of add/resize/query operations; store batch bound; stream bridging proved exact outside the recorded window and refuted inside it; model tied to the Go code by a correspondence run on every invocation", note="theorems are about the hand-written Gallina model (coq/Events); tie to the code is differential (harness generators over op sequences, stream interleavings placed through the build-tagged yield hook); kernel + vm_compute trusted", technique="Coq refinement proof + model/implementation correspondence"),
                assumptions=["event ids stay below 2^64", "ring capacities and resize targets are positive (the event system substitutes the default for 0) and at most MaxInt64 (make() panics above; head+capacity wraps above 2^63)", "event store sizes below 2^64"]),
}


