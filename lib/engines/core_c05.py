"""C05 at the level of the whole core (lead): tracked user usage vs live allocations in core histories.
Contributes the engine `core` to property C05 (the property itself is owned by lib/engines/ugm.py)."""
ENGINES = {}
PROPS = {
    "C05": dict(engines=["core"], checkers=["Oracles/CoreC05.v"], checker_fns={"core": "Oracles.CoreC05:c05_core_check_all"},
                coq_scan=["Oracles/CoreC05.v", "Oracles/CoreC01.v", "Core/Ledger.v", "Core/Obs.v"]),
}
