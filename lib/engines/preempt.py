"""engine preempt: queue preemption, required node preemption, quota change preemption (C07, C08)"""


def _info():
    """coverage counters computed with the model on the generated cases (class info: the first component is a count)"""
    both = ["C07", "C08"]
    out = {}
    add = ["cases", "additional-victims pass entered (a node was chosen)", "additional-victims pass added a victim",
           "a victim added by the additional-victims pass was preempted", "second pass of calculateVictimsByNode rejected a candidate the first pass kept",
           "additional-victims pass rejected a candidate by the queue test (not over guarantee for an ask type)",
           "additional-victims pass stopped: the ask queue cannot absorb the victim", "additional-victims pass put a victim back (no effect on the ask queue)",
           "additional-victims pass found victims but the ask queue is still over its guarantee afterwards (attempt abandoned)"]
    for base, name in ((900, "general queue streams"), (910, "stream extra")):
        for i, t in enumerate(add):
            out[base + i] = dict(cls="info", props=both, what="%s: %s" % (name, t))
    out[919] = dict(cls="info", props=both, what="stream qtime: histories")
    spt = ["preemption running", "delay 0", "no max", "usage within the max", "max unchanged, not armed, delay newly set: armed", "max unchanged, not armed: nothing",
           "max unchanged, armed, delay longer", "max unchanged, armed, delay shorter", "max unchanged, armed, same delay",
           "lowered, not armed: armed (first lowering)", "lowered again, delay longer", "lowered again, delay shorter", "lowered again, same delay",
           "raised, not armed", "raised, armed, delay longer", "raised, armed, delay shorter", "raised, armed, same delay",
           "changed in different directions, not armed", "changed in different directions, armed, delay longer", "changed in different directions, armed, delay shorter",
           "changed in different directions, armed, same delay"]
    for i, t in enumerate(spt):
        out[920 + i] = dict(cls="info", props=both, what="stream qtime: setPreemptionTime: " + t)
    acq = ["queue not managed", "already running", "usage within the max (start time cleared)", "not armed", "start time not reached", "acquired",
           "probe exactly one second before the start time", "probe exactly at the start time"]
    for i, t in enumerate(acq):
        out[945 + i] = dict(cls="info", props=both, what="stream qtime: tryAcquirePreemption: " + t)
    inc = ["re-armed", "feature off", "already armed", "queue not managed", "delay 0", "no max", "usage within the max"]
    for i, t in enumerate(inc):
        out[955 + i] = dict(cls="info", props=both, what="stream qtime: IncAllocatedResource: " + t)
    return out


ENGINES = {
    "preempt": dict(
        path="harness/preempt.go harness/preempt_gen.go harness/preempt_more.go harness/preempt_extra.go coq/Preempt coq/Oracles/PreemptCheck.v coq/Props/C07.v coq/Props/C08.v",
        about="Gallina model of Queue.FindEligiblePreemptionVictims / Preemptor / PreemptionContext / QuotaPreemptionContext on generated worlds; potential victim sets, precondition and guarantee checks compared exactly, the committed victim list validated (decision validation) and predicted exactly when creation times are distinct",
        n=dict(quick=600, thorough=1000), shards=dict(quick=1, thorough=20),
        kinds={
            1: dict(cls="corr", props=["C07"], what="model and implementation disagree on who may ask / who may be a victim (preconditions, potential victim sets, required node and quota candidate filters)"),
            4: dict(cls="corr", props=["C08"], what="model and implementation disagree on what is done with the candidates (guarantee check, chosen victims, preempting ledger, quota shares and timing)"),
            2: dict(cls="oracle", props=["C07"], what="an allocation that is not eligible was preempted, the asker was not allowed to preempt, or a victim was not announced exactly once"),
            3: dict(cls="oracle", props=["C08"], what="preemption without guarantee / victim queue not above its guarantee / victims and free space do not cover the ask / something marked although not committed / quota bound exceeded / quota preemption acted before the delay in force had elapsed since the change that armed it"),
            5: dict(cls="oracle", props=["C07", "C08"], what="the implementation panicked while preempting"),
            6: dict(cls="corr", props=["C07", "C08"], what="generated world is not well formed (harness problem)"),
            **_info(),
        },
        sections=[("queue", 0), ("reqnode", 100000), ("quota", 200000)],
    ),
}

_COMMON = dict(engines=["preempt"], checkers=["Oracles/PreemptCheck.v"], level="proof")

PROPS = {
    "C07": dict(_COMMON, props_file="Props/C07.v", coq_scan=["Preempt", "Oracles/PreemptCheck.v", "Props/C07.v"],
                manifest=dict(category="proof", text="Coq theorems over a Gallina transcription of the victim search: every allocation in the potential-victim set of FindEligiblePreemptionVictims (hence every victim of any outcome the model admits) is bound, not released, not preempted, has no required node, lives in another leaf inside the asker's preemption fence in a queue whose policy is not disabled, shares a resource type with the ask and does not outrank it unless priority fenced; asker preconditions; required-node and quota filters; at-most-once announcement over histories; model tied to the Go code by a correspondence run (potential-victim sets and preconditions compared exactly, committed victims validated) on every invocation",
                              note="theorems are about the hand-written Gallina model (coq/Preempt); tie to the code is differential on generated worlds; the sort order of victims is a validated decision when creation times tie; node reservations are not generated",
                              technique="Coq proof + model/implementation correspondence with decision validation"),
                assumptions=["worlds are well formed (unique queue ids/paths, allocation keys, node ids; every queue reaches the root; allocations and the ask live in leaf queues)", "priority arithmetic does not overflow int64 (priorities and offsets are int32)", "nodes carry no reservations of other asks", "at most 10 candidate nodes (one predicate batch)"]),
    "C08": dict(_COMMON, props_file="Props/C08.v", coq_scan=["Preempt", "Oracles/PreemptCheck.v", "Props/C08.v"], level="proof",
                manifest=dict(category="proof", text="Coq theorems over the Gallina transcription of checkPreemptionQueueGuarantees / calculateVictimsByNode / calculateAdditionalVictims / the final victim filter of TryPreemption and of the quota preemptor: an attempt commits only under the guarantee check, every victim passed the over-guarantee test on the running snapshot, a committed outcome covers the ask on the chosen node (refuted for the pinned code, proved after the fix), a failed attempt changes nothing; quota preemption claims at most the preemptable amount per type, runs only for managed queues whose armed start time has passed, over all histories of reloads / usage changes / acquisitions only after the delay in force has elapsed since the change that armed the start time (ghost arming time; refuted for the code before 1aadae4), and never dereferences a nil share (refuted for the pinned code); parts that need float or monotonicity reasoning are named _partial; the same predicates run as oracles on implementation observations",
                              note="preempting_returns_to_zero is left to the core engine (release path); float share distribution is checked by correspondence, its bound is an oracle only",
                              technique="Coq proof (partial) + model/implementation correspondence with decision validation"),
                assumptions=["worlds are well formed", "victim resources are non-negative and sums stay within int64 for the coverage theorem", "quota: guaranteed <= max on the types of max (configuration validation) for never_below_guarantee", "the partition level switch IsQuotaPreemptionEnabled is checked by scheduler.go (core engine)"]),
}
