"""C13 (no SI request crashes or corrupts) and the `coremal` engine (dense malformed stream) - builder proto"""
import importlib.util
import os

_HERE = os.path.dirname(os.path.abspath(__file__))
_spec = importlib.util.spec_from_file_location("eng_core_for_proto13", os.path.join(_HERE, "core.py"))
_core = importlib.util.module_from_spec(_spec)
_spec.loader.exec_module(_core)

ENGINES = {
    "coremal": dict(
        path="harness/core_malformed_extra.go (engine coremal: core driver/emitter reused) pinned cases: corpus/core_c13.json",
        about="core histories with a dense malformed stream: about a quarter of the requests are built to be invalid (ids unknown / duplicate / empty, unset sub-messages, zero / negative / mixed resources, releases of absent things with every termination type, operations on removed nodes and terminated applications)",
        n=dict(quick=18, thorough=150), shards=dict(quick=1, thorough=4), search_shards=2,
        kinds={}, classify=_core._classify, index_div=1000,
    ),
}
_NOTE = ("theorems are about the hand-written model of the validation front (coq/Core/Guard.v: the guards of UpdateAllocation, handleForeignAllocation, removeAllocation, "
         "processNodes, application add/remove in code order, with the former nil dereferences as explicit Crash outcomes); 'no panic' and 'no trace' for the implementation are "
         "decided by the oracle on generated histories (recover() around every request, full accounting projection before/after), not by proof; the verdict of the implementation "
         "is compared with the guard model on every allocation / node / application request")
PROPS = {
    "C13": dict(engines=["core", "coremal"], props_file="Props/C13.v", checkers=["Oracles/CoreC13.v"],
                checker_fns={"core": "Oracles.CoreC13:c13_check_all", "coremal": "Oracles.CoreC13:c13_check_all"},
                variants=["malformed", "gangdeep", "gang", "preemptdeep"], coq_scan=["Core/Guard.v", "Core/GuardProofs.v", "Core/Proj.v", "Oracles/CoreC13.v", "Props/C13.v", "Core/Obs.v", "Base"], level="proof",
                assumptions=["no nil list elements / nil map values in SI messages (the property's quantifier)", "single partition, single RM; partition not stopped or draining"],
                manifest=dict(category="proof", text="Coq: every request the property calls invalid is refused by the guards with the matching rejection (invalid_rejected), a refused request returns the state untouched (invalid_no_trace), the guards refuse nothing valid (refused_only_invalid), the repaired front has no crash path while the code before the fixes had three (no_crash / crash_before_fix), one clause refuted with witness (foreign allocation moved to another node is accepted). Oracle on every step of the core and coremal histories: no panic, invalid requests leave the full accounting projection unchanged and get their rejection, implementation verdict = guard model verdict",
                              note=_NOTE, technique="Coq proof over a guard model + malformed-request search with accounting snapshot + verdict correspondence")),
}
