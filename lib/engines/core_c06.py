"""C06 (gang scheduling) served by the core engine: oracle Oracles/CoreC06.v, component model Core/Gang.v"""
ENGINES = {}
PROPS = {
    "C06": dict(
        engines=["core"], props_file="Props/C06.v", checkers=["Oracles/CoreC06.v"],
        checker_fns={"core": "Oracles.CoreC06:c06_check_all"},
        variants=["gangdeep", "swap", "gang", "preemptdeep", "", "recover"],
        coq_scan=["Core/GangPred.v", "Core/Gang.v", "Core/GangProofs.v", "Core/GangProofs2.v", "Core/GangProofs3.v",
                  "Core/MaxApps.v", "Core/ReserveLemmas.v", "Oracles/CoreC06.v", "Props/C06.v", "Core/Obs.v", "Base"],
        level="proof",
        assumptions=[
            "the model is the placeholder bookkeeping of ONE application: 'same application' in swap_guard is by construction (both objects are found in that application's maps)",
            "zero tests of the code (IsZero(allocatedPlaceholder / allocatedResource / pending)) are read off the object list: every ask has a non-zero resource",
            "ledgers are exact integer functions of the resource type (saturation is the subject of C18); swap_effect assumes non-negative placeholder resources",
            "swap_effect is stated for an intact in-flight pair whose real ask is not larger than the placeholder; the four recorded findings are exactly the ways the code can break that pair between decision and confirmation",
            "a recovered (already bound) allocation is modelled as GAddAsk followed by GAllocate",
        ],
        manifest=dict(
            category="proof",
            text="Coq theorems over a component model of one application's gang bookkeeping (placeholderData count/replaced/timed out, allocation objects shared by the requests and allocations maps with released flags and swap links, timers, node/queue/user ledgers; tryPlaceholderAllocate, ReplaceAllocation, removeAllocationInternal, removeAllocation incl. PLACEHOLDER_REPLACED branch, removeNodeAllocations in-flight handling, timeoutPlaceholderProcessing, timeoutStateTimer, removeApplication): swap_guard, swap_effect, replaced_le_count (invariant over all operation sequences), timeout_hard, timeout_soft, timeout_paths_end, no_placeholder_outlives_app, timer_no_crash; the oracle checks the same predicates on every swap decision, confirmation, timer firing and state of the real ClusterContext, and timer firings, releases, swap decisions and allocations are replayed through the model and compared (correspondence kinds 690/691); four known findings with pinned histories",
            note="theorems are about the hand-written Gallina model (coq/Core/Gang.v); tie to the Go code: correspondence run of the core engine (variants gang/swap) plus 13 pinned histories",
            technique="Coq invariant and step proofs + oracle and model correspondence on implementation observations"),
    ),
}
