#!/bin/bash
# private build of the harness with a subset of engine files (development aid: other builders'
# in-progress files in /verif/harness cannot break it). usage: tools/devbuild.sh <out> file.go...
set -e
out=$1; shift
d=$(mktemp -d /tmp/devbuild.XXXX)
cd /verif/harness
cp common.go main.go extract.go "$@" $d/
sed -e 's/^module .*/module verifharness/' /repo/go.mod > $d/go.mod
printf '\nrequire github.com/apache/yunikorn-core v0.0.0\nreplace github.com/apache/yunikorn-core => /repo\n' >> $d/go.mod
cp /repo/go.sum $d/
cd $d && GOFLAGS=-mod=mod GOPROXY=off GOTOOLCHAIN=auto go build -tags verif -o $out . ; rc=$?
rm -rf $d
exit $rc
