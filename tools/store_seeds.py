#!/usr/bin/env python3
"""Copies confirmed seeded changes (+ results of tools/try_seed.py in /tmp/seedresults) into /verif/seeded/<id>/ and
writes /verif/seeded/SUMMARY.md. Result files: <prefix>[.<rerun tag>].json with prefix
  Cnn-SEEDn (round 1, /tmp/seed-Cnn/SEEDn), R2-Cnn-SEEDn (round 2, /tmp/seed2-Cnn/SEEDn -> Cnn-R2SEEDn),
  S3-Cnn-SEEDn (round 3, /tmp/s3-Cnn/SEEDn -> Cnn-R3SEEDn).
All result files of one seed are merged in time order: the first confirms (build, demo with/without), every one
contributes the per-property check result (the latest run of a property wins; the history is kept)."""
import glob
import json
import os
import re
import shutil

OUT = "/verif/seeded"
groups = {}
for res in glob.glob("/tmp/seedresults/*.json"):
    b = os.path.basename(res)[:-5]
    m = re.match(r"^(R2-|S3-)?(C\d\d)-(SEED\d+)(\..*)?$", b)
    if not m:
        continue
    rnd, prop, n, _ = m.groups()
    if rnd == "R2-":
        name, src = "%s-R2%s" % (prop, n), "/tmp/seed2-%s/%s" % (prop, n)
    elif rnd == "S3-":
        name, src = "%s-R3%s" % (prop, n), "/tmp/s3-%s/%s" % (prop, n)
    else:
        name, src = "%s-%s" % (prop, n), "/tmp/seed-%s/%s" % (prop, n)
    groups.setdefault(name, dict(prop=prop, src=src, files=[]))["files"].append(res)

notconf = []
for name, g in sorted(groups.items()):
    files = sorted(g["files"], key=os.path.getmtime)
    results = []
    for f in files:
        try:
            results.append(json.load(open(f)))
        except Exception:
            pass
    conf = [r for r in results if r.get("demo_with_patch")]
    if not conf:
        continue
    r0 = ([r for r in conf if "suite_fail_lines" in r] or conf)[0]
    confirmed = r0.get("builds") and r0.get("demo_with_patch") == "FAIL" and r0.get("demo_without_patch") == "ok"
    if not confirmed:
        notconf.append((name, "NOT CONFIRMED (demo with patch: %s, without: %s)" % (r0.get("demo_with_patch"), r0.get("demo_without_patch")), "", ""))
        continue
    d = os.path.join(OUT, name)
    src = g["src"]
    have_src = os.path.exists(os.path.join(src, "patch.diff"))
    if not have_src and not os.path.exists(os.path.join(d, "patch.diff")):
        continue
    os.makedirs(d, exist_ok=True)
    meta = {}
    if have_src:
        shutil.copyfile(os.path.join(src, "patch.diff"), os.path.join(d, "patch.diff"))
        shutil.copyfile(os.path.join(src, "demo_test.go"), os.path.join(d, "demo_test.go.txt"))
        if os.path.exists(os.path.join(src, "meta.json")):
            try:
                meta = json.load(open(os.path.join(src, "meta.json")))
            except Exception:
                meta = {"raw": open(os.path.join(src, "meta.json")).read()}
    old = json.load(open(os.path.join(d, "meta.json"))) if os.path.exists(os.path.join(d, "meta.json")) else {}
    hist = []
    now = {}
    for r in results:
        entry = {}
        for p, c in r.get("checks", {}).items():
            lines = c.get("lines", [])
            if any("broken-7847f81657" in l for l in lines):
                continue  # the shared harness did not build at that moment (another builder's file): not a result
            if any(l.startswith("VIOLATION") for l in lines):
                entry[p] = "caught" + (" (no-failing-input-found)" if all("no-failing-input-found" in l for l in lines if l.startswith("VIOLATION")) else "")
            else:
                entry[p] = "missed"
        if entry:
            hist.append(entry)
            now.update(entry)
    if not have_src:
        # round 1 seed stored earlier: keep its description, refresh the results
        old_hist = old.get("check_history", [])
        hist = old_hist if len(old_hist) >= len(hist) else hist
        now = old.get("checks_now", now) if hist is old_hist else now
        meta_out = dict(old, check_history=hist, checks_now=now)
    else:
        meta_out = dict(seed=name, breaks=meta.get("breaks", meta.get("property", g["prop"])), summary=meta.get("summary"), needs=meta.get("needs"), violates=meta.get("violates"),
                        author_ran=meta.get("author_ran", meta.get("ran")), origin=meta.get("origin"),
                        confirmed_by_lead=dict(tool="tools/try_seed.py (scratch worktree of /repo HEAD)", patch_applies=r0.get("apply"), builds_with_and_without_tag=r0.get("builds"),
                                               demo_with_patch=r0.get("demo_with_patch"), demo_without_patch=r0.get("demo_without_patch"),
                                               existing_suite_fail_lines_with_patch=r0.get("suite_fail_lines", "not re-run (author ran it)"),
                                               note="suite failures listed here are load-dependent flaky tests (quota preemption / placeholder timeout / pkg/scheduler/tests / events) that also fail intermittently on the unchanged tree"),
                        check_history=hist, checks_now=now)
        if old.get("rebased"):
            meta_out["rebased"] = old["rebased"]
        if os.path.exists(os.path.join(src, "patch.orig.diff")):
            shutil.copyfile(os.path.join(src, "patch.orig.diff"), os.path.join(d, "patch.orig.diff"))
    json.dump(meta_out, open(os.path.join(d, "meta.json"), "w"), indent=1)

rows = list(notconf)
for mf in sorted(glob.glob(os.path.join(OUT, "*", "meta.json"))):
    m = json.load(open(mf))
    rows.append((m["seed"], m.get("summary") or "", m.get("needs") or "", ", ".join("%s: %s" % kv for kv in (m.get("checks_now") or {}).items())))
with open(os.path.join(OUT, "SUMMARY.md"), "w") as f:
    f.write("# Seeded breaking changes (confirmed) and which check catches which\n\n")
    f.write("Each directory holds `patch.diff` (apply with `git -C /repo apply`), `demo_test.go.txt` (the author's demonstration; first line says where to place it) and `meta.json` (incl. the history of check results: a seed first missed and caught after a strengthening shows both).\n")
    f.write("Ids: Cnn-SEEDn = round 1, Cnn-R2SEEDn = round 2, Cnn-R3SEEDn = round 3 (independent authors given only the property text).\n")
    f.write("Re-run: `python3 tools/try_seed.py <dir with patch.diff and demo_test.go> <Cnn> [--also Cmm]`.\n\n| seed | change | needs | checks (latest run) |\n|---|---|---|---|\n")
    for name, summ, needs, chk in rows:
        f.write("| %s | %s | %s | %s |\n" % (name, str(summ).replace("|", "/").replace("\n", " ")[:260], str(needs).replace("|", "/").replace("\n", " ")[:200], chk))
print(len(rows), "seeds")
