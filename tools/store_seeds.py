#!/usr/bin/env python3
"""Copies confirmed seeded changes from /tmp/seed-*/SEEDn (+ results of tools/try_seed.py in /tmp/seedresults) into
/verif/seeded/<prop>-<n>/ and writes /verif/seeded/SUMMARY.md."""
import glob
import json
import os
import shutil

OUT = "/verif/seeded"
rows = []
for res in sorted(glob.glob("/tmp/seedresults/C*-SEED*.json") + glob.glob("/tmp/seedresults/R2-C*-SEED*.json")):
    name = os.path.basename(res)[:-5]
    if ".r" in name:
        continue  # reruns are merged by hand (latest result copied over the base name)
    if name.startswith("R2-"):
        _, prop, n = name.split("-")
        src = "/tmp/seed2-%s/%s" % (prop, n)
        name = "%s-R2%s" % (prop, n)
    else:
        prop, n = name.split("-")
        src = "/tmp/seed-%s/%s" % (prop, n)
    try:
        r = json.load(open(res))
    except Exception:
        continue
    if not os.path.exists(os.path.join(src, "patch.diff")):
        continue
    confirmed = r.get("builds") and r.get("demo_with_patch") == "FAIL" and r.get("demo_without_patch") == "ok"
    if not confirmed:
        rows.append((name, "NOT CONFIRMED (demo with patch: %s, without: %s)" % (r.get("demo_with_patch"), r.get("demo_without_patch")), "", ""))
        continue
    d = os.path.join(OUT, name)
    os.makedirs(d, exist_ok=True)
    shutil.copyfile(os.path.join(src, "patch.diff"), os.path.join(d, "patch.diff"))
    shutil.copyfile(os.path.join(src, "demo_test.go"), os.path.join(d, "demo_test.go.txt"))
    meta = {}
    if os.path.exists(os.path.join(src, "meta.json")):
        try:
            meta = json.load(open(os.path.join(src, "meta.json")))
        except Exception:
            meta = {"raw": open(os.path.join(src, "meta.json")).read()}
    old = {}
    if os.path.exists(os.path.join(d, "meta.json")):
        old = json.load(open(os.path.join(d, "meta.json")))
    hist = old.get("check_history", [])
    entry = {p: ("caught" + (" (no-failing-input-found)" if any("no-failing-input-found" in l for l in c["lines"]) else "")) if any(l.startswith("VIOLATION") for l in c["lines"]) else "missed" for p, c in r.get("checks", {}).items()}
    if not hist or hist[-1] != entry:
        hist.append(entry)
    meta_out = dict(seed=name, breaks=meta.get("property", prop), summary=meta.get("summary"), needs=meta.get("needs"), violates=meta.get("violates"),
                    author_ran=meta.get("ran"),
                    confirmed_by_lead=dict(tool="tools/try_seed.py (scratch worktree of /repo HEAD)", patch_applies=r.get("apply"), builds_with_and_without_tag=r.get("builds"),
                                           demo_with_patch=r.get("demo_with_patch"), demo_without_patch=r.get("demo_without_patch"),
                                           existing_suite_fail_lines_with_patch=r.get("suite_fail_lines", "not re-run (author ran it)"),
                                           note="suite failures listed here are load-dependent flaky tests (quota preemption / placeholder timeout / pkg/scheduler/tests) that also fail intermittently on the unchanged tree"),
                    check_history=hist, checks_now=entry)
    json.dump(meta_out, open(os.path.join(d, "meta.json"), "w"), indent=1)
rows = [r for r in rows if r[1].startswith("NOT CONFIRMED")]
for mf in sorted(glob.glob(os.path.join(OUT, "*", "meta.json"))):
    m = json.load(open(mf))
    rows.append((m["seed"], m.get("summary") or "", m.get("needs") or "", ", ".join("%s: %s" % kv for kv in (m.get("checks_now") or {}).items())))
with open(os.path.join(OUT, "SUMMARY.md"), "w") as f:
    f.write("# Seeded breaking changes (confirmed) and which check catches which\n\n")
    f.write("Each directory holds `patch.diff` (apply with `git -C /repo apply`), `demo_test.go.txt` (the author's demonstration; first line says where to place it) and `meta.json`.\n")
    f.write("Re-run: `python3 tools/try_seed.py <dir with patch.diff and demo_test.go> <Cnn> [--also Cmm]`.\n\n| seed | change | needs | checks (latest run) |\n|---|---|---|---|\n")
    for name, summ, needs, chk in rows:
        f.write("| %s | %s | %s | %s |\n" % (name, str(summ).replace("|", "/").replace("\n", " ")[:260], str(needs).replace("|", "/").replace("\n", " ")[:200], chk))
print(len(rows), "seeds")
