#!/usr/bin/env python3
"""Confirm a seeded breaking change and run the checks against it.

  tools/try_seed.py <seed dir with patch.diff demo_test.go meta.json> <property id> [--demo-dir pkg/...] [--no-suite] [--tier quick]

Steps (all in a scratch worktree of /repo HEAD, removed afterwards):
  1. patch applies and the tree builds (with and without -tags verif)
  2. the demonstration test FAILS with the patch and PASSES without it
  3. the existing tests of the touched packages (+ pkg/scheduler/...) still pass with the patch (unless --no-suite)
  4. ./check <property> against the patched worktree (VERIF_REPO/VERIF_BUILD): reports whether a VIOLATION line appears
Prints a JSON summary; exit 0 if the seed is confirmed (1-3), regardless of detection.
"""
import json
import os
import re
import shutil
import subprocess
import sys
import time

ENV = dict(os.environ, GOFLAGS="-mod=mod", GOPROXY="off", GOTOOLCHAIN="auto")
ENV.pop("GOSUMDB", None)


def sh(cmd, cwd=None, timeout=3000, env=ENV):
    p = subprocess.run(cmd, cwd=cwd, shell=isinstance(cmd, str), env=env, stdout=subprocess.PIPE, stderr=subprocess.STDOUT, text=True, timeout=timeout)
    return p.returncode, p.stdout


def main():
    seed = os.path.abspath(sys.argv[1])
    pid = sys.argv[2]
    args = sys.argv[3:]
    demo_dir = None
    suite = True
    tier = "quick"
    props = [pid]
    i = 0
    while i < len(args):
        if args[i] == "--demo-dir":
            demo_dir = args[i + 1]; i += 2
        elif args[i] == "--no-suite":
            suite = False; i += 1
        elif args[i] == "--tier":
            tier = args[i + 1]; i += 2
        elif args[i] == "--also":
            props.append(args[i + 1]); i += 2
        else:
            i += 1
    tag = re.sub(r"\W", "", os.path.basename(os.path.dirname(seed)) + os.path.basename(seed))
    wt = "/tmp/tryseed-%s" % tag
    bd = "/tmp/tryseed-build-%s" % tag
    out = dict(seed=seed, property=pid)
    sh(["git", "-C", "/repo", "worktree", "remove", "--force", wt])
    shutil.rmtree(wt, ignore_errors=True)
    rc, o = sh(["git", "-C", "/repo", "worktree", "add", "-q", wt, "HEAD"])
    try:
        patch = os.path.join(seed, "patch.diff")
        rc, o = sh(["git", "apply", "--check", patch], cwd=wt)
        if rc != 0:
            rc3, o3 = sh(["git", "apply", "--3way", patch], cwd=wt)
            out["apply"] = "3way rc=%d" % rc3
            if rc3 != 0:
                out["error"] = "patch does not apply: " + o[-400:]
                print(json.dumps(out, indent=1)); return 2
        else:
            sh(["git", "apply", patch], cwd=wt)
            out["apply"] = "clean"
        touched = sorted({os.path.dirname(l[6:]) for l in open(patch) if l.startswith("+++ b/")})
        out["touched"] = touched
        rc, o = sh("go build ./... && go build -tags verif ./...", cwd=wt)
        out["builds"] = rc == 0
        if rc != 0:
            out["error"] = o[-600:]
            print(json.dumps(out, indent=1)); return 2
        # demonstration
        demo = os.path.join(seed, "demo_test.go")
        if os.path.exists(demo):
            first = open(demo).readline()
            if demo_dir is None:
                m = re.search(r"(pkg/[\w/]+)", first)
                demo_dir = m.group(1) if m else touched[0]
            if demo_dir.endswith(".go") or "_test" in os.path.basename(demo_dir) or not os.path.isdir(os.path.join(wt, demo_dir)):
                demo_dir = os.path.dirname(demo_dir)
            dst = os.path.join(wt, demo_dir, "zz_seed_demo_test.go")
            shutil.copyfile(demo, dst)
            rc_with, o_with = sh("go test -count=1 -run 'Seed|seed|Demo|demo' ./%s/ 2>&1 | tail -15" % demo_dir, cwd=wt)
            out["demo_with_patch"] = "FAIL" if ("FAIL" in o_with) else ("ok" if "ok" in o_with else o_with[-200:])
            sh(["git", "apply", "-R", patch], cwd=wt)
            rc_wo, o_wo = sh("go test -count=1 -run 'Seed|seed|Demo|demo' ./%s/ 2>&1 | tail -15" % demo_dir, cwd=wt)
            out["demo_without_patch"] = "FAIL" if ("FAIL" in o_wo) else ("ok" if "ok" in o_wo else o_wo[-200:])
            sh(["git", "apply", patch], cwd=wt)
            os.remove(dst)
        if suite:
            pk = " ".join("./%s/..." % t for t in touched if t.startswith("pkg/"))
            t0 = time.time()
            rc, o = sh("go test -count=1 %s ./pkg/scheduler/... 2>&1 | grep -E '^(FAIL|ok|---)' | sort | uniq -c | sort -rn | head -30" % pk, cwd=wt, timeout=3600)
            fails = [l for l in o.splitlines() if "FAIL" in l]
            out["suite_fail_lines"] = fails
            out["suite_s"] = round(time.time() - t0)
        # the checks
        out["checks"] = {}
        for p in props:
            shutil.rmtree(bd, ignore_errors=True)
            t0 = time.time()
            rc, o = sh(["./check", p, "--tier", tier], cwd=os.environ.get("VERIF_HOME", "/verif"), env=dict(ENV, VERIF_REPO=wt, VERIF_BUILD=bd), timeout=7200)
            lines = [l for l in o.splitlines() if l.startswith(("VIOLATION", "OK"))][:4] + [l[:160] for l in o.splitlines() if l.startswith("KNOWN-FINDING")][:3]
            out["checks"][p] = dict(rc=rc, lines=lines, wall=round(time.time() - t0))
            shutil.rmtree(bd, ignore_errors=True)
        print(json.dumps(out, indent=1))
        return 0
    finally:
        sh(["git", "-C", "/repo", "worktree", "remove", "--force", wt])
        shutil.rmtree(wt, ignore_errors=True)
        shutil.rmtree(bd, ignore_errors=True)


if __name__ == "__main__":
    sys.exit(main())
