#!/usr/bin/env python3
"""merge_rerun.py <base.json> <rerun.json>: the rerun's per-property check results replace those of the base result."""
import json, sys
b = json.load(open(sys.argv[1])); r = json.load(open(sys.argv[2]))
b.setdefault("checks", {}).update(r.get("checks", {}))
json.dump(b, open(sys.argv[1], "w"), indent=1)
print({p: c["rc"] for p, c in b["checks"].items()})
