#!/usr/bin/env python3
"""Regenerates /verif/MANIFEST.json from lib/registry.py (PROPS/ENGINES) and merges
known_findings.d/*.json into known_findings.json. Run after adding an engine."""
import glob
import json
import os
import subprocess
import sys

VERIF = os.path.dirname(os.path.dirname(os.path.abspath(__file__)))
sys.path.insert(0, os.path.join(VERIF, "lib"))
import registry  # noqa

ALL = ["C%02d" % i for i in range(1, 21)]


def hook_commits():
    out = subprocess.run(["git", "-C", "/repo", "log", "--format=%h %s"], capture_output=True, text=True).stdout
    return [l.split()[0] for l in out.splitlines() if l.split(" ", 1)[1].startswith("verif hooks")]


def main():
    checks = []
    na = []
    for pid in ALL:
        spec = registry.PROPS.get(pid)
        if not spec or not spec.get("manifest"):
            na.append(dict(property_id=pid, reason=(spec or {}).get("na_reason", "engine not built yet (see DESIGN.md staging)")))
            continue
        m = dict(spec["manifest"])
        tied = [x for x in spec.get("extra_props", []) if "GoTie" in x]
        frags = [x for x in spec.get("extra_props", []) if "GoTie" not in x]
        if tied:
            m["technique"] = m.get("technique", "Coq proof over a Gallina model + model/implementation correspondence") + \
                " + source-to-Gallina translator with tie theorems (generated definition = model definition, re-proved against the current source on every run)"
            m["note"] = m["note"] + "; the Go functions listed in notes/gotrans.md for this property are translated from /repo's current source on every run (coq/Generated/Go*.v) and proved equal to the model's definitions (%s)" % ", ".join(tied)
        if frags:
            m["note"] = m["note"] + "; further fragments of the operational model and their theorems: " + ", ".join(frags)
        checks.append(dict(
            property_id=pid,
            quick_cmd="./check %s --tier quick" % pid,
            thorough_cmd="./check %s --tier thorough" % pid,
            evidence_file="/verif/evidence/%s.json" % pid,
            replay_cmd_template="./check %s --replay {path}" % pid,
            engine="+".join(spec["engines"]),
            level_claimed=dict(category=m.get("category", "proof"), text=m["text"], design_ref=m.get("design_ref", "DESIGN.md section 5 " + pid)),
            level_note=m["note"],
            technique=m.get("technique", "Coq proof over a Gallina model + model/implementation correspondence"),
        ))
    engines = []
    for name, e in sorted(registry.ENGINES.items()):
        engines.append(dict(name=name, path=e.get("path", "harness/%s.go" % name),
                            serves_properties=sorted({p for p, s in registry.PROPS.items() if name in s["engines"]}),
                            kind_free_text=e.get("about", "")))
    man = dict(
        version=1, setup_cmd="./check setup",
        hooks=dict(guard="verif", enable="go build -tags verif (harness module generated under /verif/.build/harness_src with replace github.com/apache/yunikorn-core => /repo)",
                   baseline_off_cmd="cd /repo && GOFLAGS=-mod=mod GOPROXY=off GOTOOLCHAIN=auto go test -json -vet=off -count=1 -timeout 25m ./...",
                   source_commits=hook_commits(), add_only=True),
        engines=engines, checks=checks, not_applicable=na,
        notes="Machine-checked proof (Coq 8.16.1) over an executable Gallina model of yunikorn-core, tied to /repo by a translator (Generated/*.v) and by correspondence runs; see DESIGN.md.")
    json.dump(man, open(os.path.join(VERIF, "MANIFEST.json"), "w"), indent=1)
    # known findings: fragments -> single file
    kf = os.path.join(VERIF, "known_findings.json")
    base = json.load(open(kf))
    have = {f["id"]: i for i, f in enumerate(base["findings"])}
    for frag in sorted(glob.glob(os.path.join(VERIF, "known_findings.d", "*.json"))):
        for f in json.load(open(frag))["findings"]:
            if f["id"] in have:
                base["findings"][have[f["id"]]] = f
            else:
                have[f["id"]] = len(base["findings"])
                base["findings"].append(f)
    for f in base["findings"]:
        if f.get("kind") == "fixed" and not f["what"].startswith("fixed: property="):
            f["what"] = "fixed: property=%s %s %s" % (f["property"], f.get("commit", "?"), f["what"])
    json.dump(base, open(kf, "w"), indent=1)
    print("MANIFEST: %d checks, %d not applicable; known findings: %d" % (len(checks), len(na), len(base["findings"])))


if __name__ == "__main__":
    main()
